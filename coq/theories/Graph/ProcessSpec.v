(* Specification vocabulary for C09, in terms of the edge list only (no traversal). *)
Require Import List Arith Bool Relations.
From Dasp Require Import Base.Res Base.ListX Graph.Dfs Graph.Process.
Import ListNotations.

Section Spec.
Context {W B : Type}.
Variable bufs : W -> B.
Variable nproc : W -> list B -> W.

(* there is an edge u -> v *)
Definition edge (g : graph W) (u v : nat) : Prop := In (u, v) (edges g).
(* ... that is not a self-loop *)
Definition pedge (g : graph W) (u v : nat) : Prop := edge g u v /\ u <> v.

(* what petgraph maintains: edges join nodes that exist *)
Definition wf (g : graph W) : Prop :=
  forall u v, edge g u v -> live g u = true /\ live g v = true.

(* v has a directed path (possibly empty) to out *)
Definition upstream (g : graph W) (out v : nat) : Prop := clos_refl_trans nat (edge g) v out.

(* no cycle through an upstream node, self-loops aside (they are never followed: the
   traversal has discovered the node already, and process skips them as inputs) *)
Definition acyclic_upstream (g : graph W) (out : nat) : Prop :=
  forall x, upstream g out x -> ~ clos_trans nat (pedge g) x x.

(* one entry per edge u -> v with u <> v, newest edge first *)
Definition ins (g : graph W) (v : nat) : list nat :=
  map fst (filter (fun e => (snd e =? v) && negb (fst e =? v)) (rev (edges g))).

(* the inputs presented to v in graph state g: (identity, current buffers) *)
Definition inputs_of (g : graph W) (v : nat) : list (nat * B) :=
  flat_map (fun u => match weight g u with Some w => [(u, bufs w)] | None => [] end) (ins g v).

(* invoking v once in state g *)
Definition invoke (g : graph W) (v : nat) : graph W :=
  match weight g v with
  | Some w => set_weight g v (nproc w (map snd (inputs_of g v)))
  | None => g
  end.

Definition inv_rec (g : graph W) (v : nat) : invocation B :=
  {| who := v; from := map fst (inputs_of g v); seen := map snd (inputs_of g v) |}.

(* invoking the nodes of [order] one after the other: final graph and what each saw *)
Fixpoint spec_run (g : graph W) (order : list nat) : graph W * list (invocation B) :=
  match order with
  | [] => (g, [])
  | v :: t => let r := spec_run (invoke g v) t in (fst r, inv_rec g v :: snd r)
  end.

(* functional evaluation: the weight (state and buffers) node v ends with when every node
   is computed from its initial state and the evaluated buffers of the nodes feeding it;
   k bounds the depth (k = number of slots is enough on an acyclic upstream subgraph) *)
Fixpoint eval (g : graph W) (k : nat) (v : nat) : option W :=
  match k with
  | O => weight g v
  | S k' =>
    match weight g v with
    | None => None
    | Some w =>
      Some (nproc w (flat_map (fun u => match eval g k' u with Some w' => [bufs w'] | None => [] end)
                              (ins g v)))
    end
  end.

(* pure nodes: the buffers written depend only on a key of the node and on the inputs *)
Section Pure.
Context {K : Type}.
Variable key : W -> K.
Variable f : K -> list B -> B.

Definition pure_nodes : Prop := forall w i, bufs (nproc w i) = f (key w) i.

Fixpoint peval (g : graph W) (k : nat) (v : nat) : option B :=
  match k with
  | O => option_map bufs (weight g v)
  | S k' =>
    match weight g v with
    | None => None
    | Some w =>
      Some (f (key w) (flat_map (fun u => match peval g k' u with Some b => [b] | None => [] end)
                                (ins g v)))
    end
  end.
End Pure.

(* result of a process call without the processor *)
Definition outcome (r : res (processor * graph W * list (invocation B))) : res (graph W * list (invocation B)) :=
  rmap (fun x => (snd (fst x), snd x)) r.

End Spec.
