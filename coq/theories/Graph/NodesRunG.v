(* Executable interface of the COMPOSED graph node (Graph/NodesCompose.v) for the C16
   correspondence: GraphNode over an arbitrary inner petgraph Graph / StableGraph whose nodes are
   built-in nodes (the deep embedding [node] of NodesRun.v) or again graph nodes; the inner graph
   is processed by the C09 model ([process_r]: DfsPostOrder over the reversed multigraph, inputs
   per incoming edge newest first), exactly the definitions the theorems of props/C16.v
   (c16_graph_node_composed ...) are about. *)
Require Import Floats.SpecFloat.
Require Import List ZArith Bool Arith.
From Flocq Require Import Core BinarySingleNaN.
From Dasp Require Import Base.Res Base.ListX Base.Float Ring.Bounded Ring.Fixed Graph.Dfs Graph.Process
  Graph.Nodes Graph.NodesRun Graph.NodesCompose.
Import ListNotations.
Local Open Scope nat_scope.

Section DeepG.
Context {Smp : Type}.
Variable zero : Smp.
Variable add : Smp -> Smp -> Smp.
Notation bufs := (list (list Smp)).

(* a built-in node, or a GraphNode { processor, graph, input_nodes, output_node } whose inner
   node type is again this type (BoxedNode in the harness) *)
Inductive cnode :=
| CLeaf (nd : node Smp)
| CGraph (p : processor) (g : graph (cnode * bufs)) (ids : list nat) (on : nat).

(* Node::process; [d] bounds the nesting depth (structural recursion through the graph container
   is not available); running out of it is reported as UB and never happens for d >= depth *)
Fixpoint cprocess (d : nat) (nd : cnode) (inputs : list bufs) (output : bufs) : res (cnode * bufs) :=
  match nd with
  | CLeaf n => let* r := nprocess zero add n inputs output in Ok (CLeaf (fst r), snd r)
  | CGraph p g ids on =>
    match d with
    | O => UB
    | S d' =>
      let* r := gn_process (cprocess d') ids on (p, g) inputs output in
      Ok (CGraph (fst (fst r)) (snd (fst r)) ids on, snd r)
    end
  end.

(* Signal::next calls made so far by all signal nodes of the configuration *)
Fixpoint cpulls (d : nat) (nd : cnode) : nat :=
  match nd with
  | CLeaf n => pulls_of n
  | CGraph _ g _ _ =>
    match d with
    | O => 0
    | S d' => fold_right (fun s acc => match s with Some w => cpulls d' (fst w) + acc | None => acc end) 0 (slots g)
    end
  end.

Variable enc : Smp -> Z.

Fixpoint crun_calls (d : nat) (nd : cnode) (out : bufs) (calls : list (bop * list bufs)) : list (list Z) :=
  match calls with
  | [] => []
  | (op, inputs) :: t =>
    match cprocess d nd inputs (apply_bop zero op out) with
    | Ok (nd', out') =>
      [9%Z; Z.of_nat (length out')] :: map (map enc) out'
        ++ [7%Z; Z.of_nat (cpulls d nd')] :: crun_calls d nd' (match op with BTake => out | _ => out' end) t
    | Panic k => [[8%Z; Z.of_nat (panic_code k)]]
    | UB => [[(-2)%Z]]
    end
  end.

End DeepG.
Arguments cnode Smp : clear implicits.

(* ---- Z-level cases ---- *)
(* ZCG nodes edges removed ids on: the inner graph is built by add_node for every entry of [nodes]
   (node, one fill value per buffer) in order, add_edge for every entry of [edges] in order, then
   remove_node for every entry of [removed] (StableGraph only) *)
Inductive zcnode :=
| ZLeaf (z : znode)
| ZCG (nodes : list (zcnode * list Z)) (edges : list (Z * Z)) (removed : list Z) (ids : list Z) (on : Z).

Inductive zgcase := GCase (nd : zcnode) (out0 : list (list Z)) (calls : list ((Z * Z) * list (list (list Z)))).

Fixpoint zdepth (z : zcnode) : nat :=
  match z with
  | ZLeaf _ => 0
  | ZCG nodes _ _ _ _ => S (fold_right (fun (p : zcnode * list Z) acc => Nat.max (let (a, _) := p in zdepth a) acc) 0 nodes)
  end.

Fixpoint zc_float (z : zcnode) : bool :=
  match z with
  | ZLeaf l => uses_float l
  | ZCG nodes _ _ _ _ => existsb (fun p : zcnode * list Z => let (a, _) := p in zc_float a) nodes
  end.

Section ConvG.
Context {Smp : Type}.
Variable dec : Z -> Smp.

Definition build_graph {W} (ws : list W) (es : list (Z * Z)) (removed : list Z) : graph W :=
  fold_left (fun g a => fst (remove_node (Z.to_nat a) g)) removed
            {| slots := map Some ws; edges := map (fun e => (Z.to_nat (fst e), Z.to_nat (snd e))) es; free := [] |}.

Fixpoint to_cnode (z : zcnode) : cnode Smp :=
  match z with
  | ZLeaf l => CLeaf (to_node dec l)
  | ZCG nodes es removed ids on =>
    CGraph new_processor
           (build_graph (map (fun p : zcnode * list Z => let (a, fills) := p in (to_cnode a, map (fill dec) fills)) nodes) es removed)
           (map Z.to_nat ids) (Z.to_nat on)
  end.
End ConvG.

Definition run_gcase (c : zgcase) : list (list Z) :=
  let '(GCase nd out0 calls) := c in
  if zc_float nd then
    crun_calls F32.zero F32.add F32.bits (zdepth nd) (to_cnode F32.of_bits nd)
      (map (map F32.of_bits) out0) (map (fun c => (to_bop (fst c), map (map (map F32.of_bits)) (snd c))) calls)
  else
    crun_calls 0%Z Z.add (fun z => z) (zdepth nd) (to_cnode (fun z => z) nd) out0
      (map (fun c => (to_bop (fst c), snd c)) calls).

Definition gcheck (c : zgcase * list (list Z)) : bool := zll_eqb (run_gcase (fst c)) (snd c).
