(* When the sample addition is associative and commutative (exact arithmetic, e.g. the
   reals) the Sum node's result does not depend on the order of its inputs and is the
   ordinary sum; for f32 only the order-respecting statement of NodesProofs.v holds. *)
Require Import List Arith Permutation Reals.
From Dasp Require Import Base.Res Base.ListX Graph.Nodes Graph.NodesSpec Graph.NodesProofs.
Import ListNotations.

Section Order.
Context {Smp : Type}.
Variable zero : Smp.
Variable add : Smp -> Smp -> Smp.
Variable LEN : nat.
Hypothesis add_assoc : forall x y z, add x (add y z) = add (add x y) z.
Hypothesis add_comm : forall x y, add x y = add y x.

Lemma fold_left_perm (l l' : list Smp) : Permutation l l' -> forall a, fold_left add l a = fold_left add l' a.
Proof.
  induction 1 as [|x l l' H IH|x y l|l l' l'' H1 IH1 H2 IH2]; intros a; cbn [fold_left]; auto.
  - f_equal. rewrite <- !add_assoc. f_equal. apply add_comm.
  - now rewrite IH1, IH2.
Qed.

Theorem sum_order_irrelevant (inputs inputs' : list (list (list Smp))) n :
  Permutation inputs inputs' -> sum_spec zero add LEN inputs n = sum_spec zero add LEN inputs' n.
Proof.
  intros H. unfold sum_spec, sum_row. apply map_ext. intros c. apply map_ext. intros i.
  apply fold_left_perm. unfold chan_samples. now apply Permutation_flat_map.
Qed.

End Order.

Open Scope R_scope.

(* over the reals each output sample is the sum of the channel's samples *)
Theorem sum_real (LEN : nat) (inputs : list (list (list R))) nout c i : (c < nout)%nat -> (i < LEN)%nat ->
  nth2 (sum_spec 0 Rplus LEN inputs nout) c i = Some (fold_right Rplus 0 (chan_samples inputs c i)).
Proof.
  intros Hc Hi. rewrite sum_spec_nth by auto. f_equal. apply fold_symmetric.
  - intros. now rewrite Rplus_assoc.
  - intros. apply Rplus_comm.
Qed.
