(* Proofs about Graph/ProcessPanic.v: it is the model of Graph/Process.v when no node panics;
   a call does not depend on what the processor went through before, aborted calls included;
   calls (aborted or not) keep the shape of the graph. *)
Require Import List Arith Lia Bool Relations.
From Dasp Require Import Base.Res Base.ListX Graph.Dfs Graph.Process Graph.ProcessSpec Graph.DfsProofs
  Graph.ProcessProofs Graph.EvalProofs Graph.ExtraProofs Graph.ProcessPanic.
Import ListNotations.

Section PFP.
Context {W B : Type}.
Variable bufs : W -> B.
Variable nproc : W -> list B -> W.
Variable nfail : W -> list B -> option W.

Notation graph := (graph W).
Notation process_loop_f := (process_loop_f bufs nproc nfail).
Notation process_f := (process_f bufs nproc nfail).
Notation foutcome := (@foutcome W B).

(* ---------- the inputs vector against the (identity, buffers) pairs of Process.collect ---------- *)
Lemma collect_ids_collect (g : graph) n l : forall acc,
  collect_ids g n l acc =
  match collect bufs g n l with
  | Ok ins => Ok (acc ++ map fst ins)
  | Panic k => Panic k
  | UB => UB
  end.
Proof.
  induction l as [|u t IH]; intros acc; cbn [collect_ids collect map]; [now rewrite app_nil_r|].
  destruct (n =? u); [apply IH|]. destruct (weight g u) as [w|]; [|reflexivity].
  rewrite IH. destruct (collect bufs g n t) as [r| |]; cbn [bind map fst]; try reflexivity.
  now rewrite <- app_assoc.
Qed.

Lemma deref_collect (g : graph) n l : forall ins, collect bufs g n l = Ok ins ->
  deref bufs g (map fst ins) = Ok (map snd ins).
Proof.
  induction l as [|u t IH]; intros ins; cbn [collect].
  - intros [= <-]. reflexivity.
  - destruct (n =? u); [apply IH|]. destruct (weight g u) as [w|] eqn:Hw; [|discriminate].
    destruct (collect bufs g n t) as [r| |]; cbn [bind]; try discriminate.
    intros [= <-]. cbn [map fst snd deref]. rewrite Hw, (IH r eq_refl). reflexivity.
Qed.

(* ---------- no node panics: exactly the model the C09 theorems are about ---------- *)
Definition forget_inputs (x : fprocessor * graph * list (invocation B) * fresult) :=
  (base (fst (fst (fst x))), snd (fst (fst x)), snd (fst x), snd x).

Lemma loop_f_no_fail : (forall w i, nfail w i = None) ->
  forall k F p (g : graph) log,
  rmap forget_inputs (process_loop_f k F p g log) =
  rmap (fun x => (fst (fst x), snd (fst x), snd x, Done)) (process_loop bufs nproc k F (base p) g log).
Proof.
  intros Hnf. induction k as [|k IH]; intros F p g log; [reflexivity|].
  cbn [ProcessPanic.process_loop_f Process.process_loop].
  destruct (next (neighbors_in g) F (cap (base p)) (dfs (base p))) as [[s' r]| |]; cbn [bind fst snd]; try reflexivity.
  destruct r as [x|]; [|reflexivity].
  destruct (weight g x) as [w|]; [|reflexivity].
  rewrite collect_ids_collect. unfold clear. cbn [app].
  destruct (collect bufs g x (neighbors_in g x)) as [ins| |] eqn:Hc; cbn [bind]; try reflexivity.
  rewrite (deref_collect g x _ ins Hc). cbn [bind]. rewrite Hnf.
  rewrite IH. reflexivity.
Qed.

Theorem process_f_no_fail : (forall w i, nfail w i = None) ->
  forall p (g : graph) out,
  rmap forget_inputs (process_f p g out) =
  rmap (fun x => (fst (fst x), snd (fst x), snd x, Done)) (process bufs nproc (base p) g out).
Proof. intros Hnf p g out. unfold ProcessPanic.process_f, Process.process. now rewrite loop_f_no_fail. Qed.

(* ---------- a call keeps the shape of the graph, also when a node panics ---------- *)
Lemma loop_f_shape : forall k F p (g : graph) log p' g' log' r,
  process_loop_f k F p g log = Ok (p', g', log', r) -> same_shape g g'.
Proof.
  induction k as [|k IH]; intros F p g log p' g' log' r; cbn [ProcessPanic.process_loop_f]; [discriminate|].
  destruct (next (neighbors_in g) F (cap (base p)) (dfs (base p))) as [[s' rr]| |]; cbn [bind fst snd]; try discriminate.
  destruct rr as [x|].
  2:{ intros [= _ <- _ _]. apply shape_refl. }
  destruct (weight g x) as [w|] eqn:Hw; [|discriminate].
  assert (Hl : live g x = true) by (apply live_weight; eauto).
  destruct (collect_ids g x (neighbors_in g x) (clear (inputs p))) as [ids| |]; cbn [bind]; try discriminate.
  destruct (deref bufs g ids) as [ins| |]; cbn [bind]; try discriminate.
  destruct (nfail w ins) as [w'|].
  - intros [= _ <- _ _]. apply shape_set_weight; [apply shape_refl|exact Hl].
  - intros H. apply IH in H. eapply shape_trans; [|exact H].
    apply shape_set_weight; [apply shape_refl|exact Hl].
Qed.

Theorem process_f_shape p (g : graph) out p' g' log r :
  process_f p g out = Ok (p', g', log, r) -> same_shape g g'.
Proof. apply loop_f_shape. Qed.

(* ---------- reuse: nothing of the processor's past is read ---------- *)
Lemma loop_f_indep (g0 : graph) c1 c2 F : wf g0 ->
  (forall x, live g0 x = true -> x < c1) -> (forall x, live g0 x = true -> x < c2) ->
  forall k s i1 i2 (g : graph) log, same_shape g0 g -> in_univ (node_identifiers g0) s ->
  foutcome (process_loop_f k F {| base := {| dfs := s; cap := c1 |}; inputs := i1 |} g log) =
  foutcome (process_loop_f k F {| base := {| dfs := s; cap := c2 |}; inputs := i2 |} g log).
Proof.
  intros Hwf H1 H2. induction k as [|k IH]; intros s i1 i2 g log Hs HU; [reflexivity|].
  cbn [ProcessPanic.process_loop_f base inputs cap dfs].
  rewrite (next_shape g0 c1 Hwf g F s Hs), (next_shape g0 c2 Hwf g F s Hs).
  rewrite (next_cap (ins g0) (node_identifiers g0) (univ_closed g0 Hwf) c1 c2
             (univ_cap g0 c1 H1) (univ_cap g0 c2 H2) F s HU).
  destruct (next (ins g0) F c2 s) as [[s' r]| |] eqn:Hn; cbn [bind fst snd]; try reflexivity.
  destruct r as [x|]; [|reflexivity].
  destruct (weight g x) as [w|] eqn:Hw; [|reflexivity].
  unfold clear.
  destruct (collect_ids g x (neighbors_in g x) []) as [ids| |]; cbn [bind]; try reflexivity.
  destruct (deref bufs g ids) as [ins0| |]; cbn [bind]; try reflexivity.
  destruct (nfail w ins0) as [w'|]; [reflexivity|].
  apply IH.
  - apply shape_set_weight; [assumption|]. apply live_weight. eauto.
  - eapply next_in_univ; [apply (univ_closed g0 Hwf)|exact HU|exact Hn].
Qed.

(* whatever the processor went through before -- completed calls, calls aborted by a node
   panic at any point (any traversal state, any content of the inputs vector, any bit-set
   length) -- the next call produces the same graph, the same invocations with the same
   inputs, and ends the same way as on any other processor, e.g. a new one *)
Theorem process_f_reuse p1 p2 (g : graph) out : wf g -> live g out = true ->
  foutcome (process_f p1 g out) = foutcome (process_f p2 g out).
Proof.
  intros Hwf Hout. unfold ProcessPanic.process_f.
  apply (loop_f_indep g _ _ (fuel_of g) Hwf).
  - intros x Hx. apply live_bound in Hx. cbn. lia.
  - intros x Hx. apply live_bound in Hx. cbn. lia.
  - apply shape_refl.
  - intros x [<-|[]]. now apply in_node_identifiers.
Qed.

End PFP.
