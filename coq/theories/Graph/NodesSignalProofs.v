(* Signal node: LEN frames per call, de-interleaved into min(CHANNELS, outputs) buffers,
   continuing where the previous call stopped. *)
Require Import List Arith Bool Lia.
From Dasp Require Import Base.Res Base.ListX Graph.Nodes Graph.NodesSpec Graph.NodesProofs.
Import ListNotations.

Section SignalProofs.
Context {Smp St : Type}.
Variable LEN : nat.
Variable next : St -> list Smp * St.
Variable CH : nat.
Hypothesis frame_len : forall st, length (fst (next st)) = CH.

Notation buffer := (list Smp).
Notation bufs := (list (list Smp)).
Notation wfb := (wfb (Smp:=Smp) LEN).
Notation wfbs := (wfbs (Smp:=Smp) LEN).
Notation nth2 := (nth2 (Smp:=Smp)).

Definition memb (ch : nat) (chs : list nat) : bool := if in_dec Nat.eq_dec ch chs then true else false.

Lemma wfbs_set (out : bufs) ch (b : buffer) : wfbs out -> wfb b -> wfbs (set_nth ch b out).
Proof.
  intros Ho Hb. apply Forall_forall. intros x Hx. apply In_nth_error in Hx. destruct Hx as [k Hk].
  rewrite nth_error_set_nth in Hk. destruct ((ch =? k) && (ch <? length out)).
  - inversion Hk; subst; auto.
  - eapply wfbs_nth; eauto.
Qed.

Lemma sig_scatter_ok : forall (chs : list nat) ix (frame : list Smp) (out : bufs),
  (forall ch, In ch chs -> ch < length frame /\ ch < length out) -> wfbs out -> ix < LEN ->
  exists out', sig_scatter chs ix frame out = Ok out' /\ wfbs out' /\ length out' = length out /\
    forall ch j, nth2 out' ch j = if memb ch chs && (j =? ix) then nth_error frame ch else nth2 out ch j.
Proof.
  induction chs as [|c0 t IH]; intros ix frame out Hch Ho Hix.
  - exists out. repeat split; auto.
  - destruct (Hch c0 (or_introl eq_refl)) as [Hf Hl].
    destruct (nth_error_lt_Some frame c0 Hf) as [x Ex]. destruct (nth_error_lt_Some out c0 Hl) as [ob Eob].
    assert (Wob : wfb ob) by (eapply wfbs_nth; eauto).
    cbn [sig_scatter]. unfold get_unchecked, get_checked. rewrite Ex, Eob. cbn [bind].
    assert (Hlt : ix <? length ob = true) by (apply Nat.ltb_lt; rewrite Wob; auto). rewrite Hlt.
    set (out1 := set_nth c0 (set_nth ix x ob) out).
    assert (W1 : wfbs out1).
    { apply wfbs_set; auto. unfold NodesSpec.wfb. now rewrite set_nth_length. }
    assert (L1 : length out1 = length out) by apply set_nth_length.
    destruct (IH ix frame out1) as [out' [E [W [L P]]]]; auto.
    { intros ch Hin. destruct (Hch ch (or_intror Hin)). rewrite L1. auto. }
    exists out'. split; [exact E|]. split; [exact W|]. split; [congruence|].
    assert (H1 : forall ch j, nth2 out1 ch j = if (ch =? c0) && (j =? ix) then Some x else nth2 out ch j).
    { intros ch j. unfold NodesSpec.nth2, out1. rewrite nth_error_set_nth.
      assert (Hl' : c0 <? length out = true) by now apply Nat.ltb_lt. rewrite Hl', andb_true_r.
      rewrite (Nat.eqb_sym ch c0). destruct (Nat.eqb_spec c0 ch) as [<-|Hne]; cbn [andb]; auto.
      rewrite nth_error_set_nth, Hlt, andb_true_r, Eob, (Nat.eqb_sym j ix). reflexivity. }
    intros ch j. rewrite P, H1. unfold memb.
    destruct (in_dec Nat.eq_dec ch t) as [Hin|Hnin]; destruct (in_dec Nat.eq_dec ch (c0 :: t)) as [Hin2|Hnin2];
      cbn [andb]; try (exfalso; apply Hnin2; right; exact Hin).
    + destruct (j =? ix); auto. now rewrite andb_false_r.
    + destruct Hin2 as [<-|Hin2]; [|contradiction]. rewrite Nat.eqb_refl. cbn [andb].
      destruct (j =? ix); auto.
    + destruct (Nat.eqb_spec ch c0) as [->|Hne]; [exfalso; apply Hnin2; now left|]. reflexivity.
Qed.

Lemma memb_seq ch n : memb ch (seq 0 n) = (ch <? n).
Proof.
  unfold memb. destruct (in_dec Nat.eq_dec ch (seq 0 n)) as [H|H]; rewrite in_seq in H; symmetry.
  - apply Nat.ltb_lt. lia.
  - apply Nat.ltb_ge. lia.
Qed.

Notation sig_state := (sig_state next).
Notation sig_frame := (sig_frame next).

Lemma sig_frames_ok : forall n a channels st (out : bufs),
  channels <= CH -> channels <= length out -> wfbs out -> a + n <= LEN ->
  exists out', sig_frames next (seq a n) channels st out = Ok (sig_state n st, out') /\
    wfbs out' /\ length out' = length out /\
    forall ch j, nth2 out' ch j =
      if (ch <? channels) && (a <=? j) && (j <? a + n) then nth_error (sig_frame (j - a) st) ch else nth2 out ch j.
Proof.
  induction n as [|n IH]; intros a channels st out Hc Hl Ho Ha.
  - exists out. split; [reflexivity|]. repeat split; auto. intros ch j.
    destruct (Nat.leb_spec a j); destruct (Nat.ltb_spec j (a + 0)); try lia; now rewrite ?andb_false_r.
  - cbn [seq sig_frames].
    destruct (sig_scatter_ok (seq 0 channels) a (fst (next st)) out) as [out1 [E1 [W1 [L1 P1]]]]; auto; try lia.
    { intros ch Hin. apply in_seq in Hin. rewrite frame_len. lia. }
    rewrite E1. cbn [bind].
    destruct (IH (S a) channels (snd (next st)) out1) as [out' [E [W [L P]]]]; auto; try lia.
    exists out'. split; [exact E|]. split; [exact W|]. split; [congruence|].
    intros ch j. rewrite P, P1, memb_seq. unfold NodesSpec.sig_frame.
    destruct (ch <? channels); cbn [andb]; auto.
    destruct (Nat.leb_spec (S a) j) as [H1|H1]; destruct (Nat.ltb_spec j (S a + n)) as [H2|H2]; cbn [andb].
    + destruct (Nat.leb_spec a j); try lia. destruct (Nat.ltb_spec j (a + S n)); try lia. cbn [andb].
      replace (j - a) with (S (j - S a)) by lia. reflexivity.
    + destruct (Nat.eqb_spec j a); try lia. destruct (Nat.ltb_spec j (a + S n)); try lia.
      now rewrite andb_false_r.
    + destruct (Nat.eqb_spec j a) as [->|Hne].
      * rewrite Nat.leb_refl. destruct (Nat.ltb_spec a (a + S n)); try lia. cbn [andb].
        now rewrite Nat.sub_diag.
      * destruct (Nat.leb_spec a j); try lia. reflexivity.
    + lia.
Qed.

(* one call *)
Theorem signal_call (st : St) (inputs : list bufs) (out : bufs) : wfbs out ->
  exists out', signal_process LEN next CH st inputs out = Ok (sig_state LEN st, out') /\
    wfbs out' /\ length out' = length out /\
    forall ch j, nth2 out' ch j =
      if (ch <? Nat.min CH (length out)) && (j <? LEN) then nth_error (sig_frame j st) ch else nth2 out ch j.
Proof.
  intros Ho. unfold signal_process.
  destruct (sig_frames_ok LEN 0 (Nat.min CH (length out)) st out) as [out' [E [W [L P]]]]; auto; try lia.
  exists out'. repeat split; auto. intros ch j. rewrite P. cbn [Nat.leb Nat.add]. rewrite andb_true_r, Nat.sub_0_r.
  reflexivity.
Qed.

Lemma sig_state_add a b st : sig_state (a + b) st = sig_state b (sig_state a st).
Proof. revert st; induction a as [|a IH]; intros st; cbn; auto. Qed.

(* any number of consecutive calls *)
Theorem signal_stream : forall n (st : St) (out : bufs), wfbs out ->
  exists outs, signal_calls LEN next CH n st out = Ok (sig_state (n * LEN) st, outs) /\ length outs = n /\
    forall k o, nth_error outs k = Some o ->
      length o = length out /\ wfbs o /\
      forall ch j, j < LEN ->
        nth2 o ch j = if ch <? Nat.min CH (length out) then nth_error (sig_frame (k * LEN + j) st) ch
                      else nth2 out ch j.
Proof.
  induction n as [|n IH]; intros st out Ho.
  - exists []. split; [reflexivity|]. split; [reflexivity|]. intros [|k] o E; discriminate.
  - cbn [signal_calls]. destruct (signal_call st [] out Ho) as [out1 [E1 [W1 [L1 P1]]]]. rewrite E1. cbn [bind fst snd].
    destruct (IH (sig_state LEN st) out1 W1) as [outs [E [Ln P]]]. rewrite E. cbn [bind fst snd].
    exists (out1 :: outs). split.
    { f_equal. f_equal. cbn [Nat.mul]. now rewrite sig_state_add. }
    split; [cbn; lia|]. intros [|k] o Eo; cbn [nth_error] in Eo.
    + inversion Eo; subst o. repeat split; auto. intros ch j Hj. rewrite P1.
      destruct (Nat.ltb_spec j LEN); try lia. now rewrite andb_true_r.
    + destruct (P k o Eo) as [Lo [Wo Po]]. split; [congruence|]. split; [exact Wo|].
      intros ch j Hj. rewrite (Po ch j Hj), L1, P1.
      destruct (ch <? Nat.min CH (length out)) eqn:Ech; cbn [andb].
      * unfold NodesSpec.sig_frame. rewrite <- sig_state_add.
        assert (EE : LEN + (k * LEN + j) = S k * LEN + j) by (cbn [Nat.mul]; lia). rewrite EE. reflexivity.
      * reflexivity.
Qed.

(* the same when the node's buffer list is replaced between calls: EVERY call pulls exactly
   LEN frames, whatever the number of buffers (zero included), and call k writes frames
   k*LEN .. k*LEN+LEN-1 onto the buffers it was given *)
Theorem signal_stream_v : forall (outs : list bufs) (st : St), Forall wfbs outs ->
  exists res, signal_calls_v LEN next CH outs st = Ok (sig_state (length outs * LEN) st, res) /\
    length res = length outs /\
    forall k out o, nth_error outs k = Some out -> nth_error res k = Some o ->
      length o = length out /\ wfbs o /\
      forall ch j, j < LEN ->
        nth2 o ch j = if ch <? Nat.min CH (length out) then nth_error (sig_frame (k * LEN + j) st) ch
                      else nth2 out ch j.
Proof.
  induction outs as [|out ot IH]; intros st Ho.
  - exists []. split; [reflexivity|]. split; [reflexivity|]. intros [|k] ? ? E; discriminate.
  - inversion Ho as [|? ? Ho1 Ho2]; subst. cbn [signal_calls_v].
    destruct (signal_call st [] out Ho1) as [out1 [E1 [W1 [L1 P1]]]]. rewrite E1. cbn [bind fst snd].
    destruct (IH (sig_state LEN st) Ho2) as [res [E [Ln P]]]. rewrite E. cbn [bind fst snd].
    exists (out1 :: res). split.
    { f_equal. f_equal. cbn [length Nat.mul]. now rewrite sig_state_add. }
    split; [cbn; lia|]. intros [|k] out' o Eo Er; cbn [nth_error] in Eo, Er.
    + inversion Eo; inversion Er; subst. repeat split; auto. intros ch j Hj. rewrite P1.
      destruct (Nat.ltb_spec j LEN); try lia. now rewrite andb_true_r.
    + destruct (P k out' o Eo Er) as [Lo [Wo Po]]. split; [exact Lo|]. split; [exact Wo|].
      intros ch j Hj. rewrite (Po ch j Hj).
      destruct (ch <? Nat.min CH (length out')) eqn:Ech; auto.
      unfold NodesSpec.sig_frame. rewrite <- sig_state_add.
      assert (EE : LEN + (k * LEN + j) = S k * LEN + j) by (cbn [Nat.mul]; lia). rewrite EE. reflexivity.
Qed.

End SignalProofs.
