(* Model of dasp_graph::{Processor, process, sources, sinks} (dasp_graph/src/lib.rs), written
   after the source.  Definitions only.

   A node weight [W] is a NodeData (node state + its buffers); [bufs w] are the buffers an
   Input to that node refers to; [nproc w ins] is Node::process(&mut node, inputs, &mut buffers)
   given the buffers the inputs point to at the moment of the call. *)
Require Import List Arith Bool.
From Dasp Require Import Base.Res Base.ListX Graph.Dfs.
Import ListNotations.

Section Proc.
Context {W B : Type}.
Variable bufs : W -> B.
Variable nproc : W -> list B -> W.

(* what an instrumented node observes when invoked: who it is, which nodes its inputs
   refer to (in the order given), and the buffers it finds there *)
Record invocation := { who : nat; from : list nat; seen : list B }.

(* Processor = the DfsPostOrder plus the length of its two FixedBitSets (the `inputs` Vec
   is cleared before every use and carries nothing from call to call) *)
Record processor := { dfs : st; cap : nat }.

(* Processor::with_capacity: DfsPostOrder::default(), empty bit sets *)
Definition new_processor : processor := {| dfs := st_empty; cap := 0 |}.

(* DfsPostOrder::reset(Reversed(g)): reset_map = clear + grow(node_bound) on both maps
   (grow never shrinks), stack.clear() *)
Definition reset (p : processor) (g : graph W) : processor :=
  {| dfs := st_empty; cap := Nat.max (cap p) (node_bound g) |}.

(* DfsPostOrder::move_to: stack.clear(); stack.push(start) *)
Definition move_to (n : nat) (p : processor) : processor :=
  {| dfs := {| stack := [n]; disc := disc (dfs p); fin := fin (dfs p) |}; cap := cap p |}.

(* the `for in_n in neighbors_directed(n, Incoming)` loop: skip in_n == n,
   node_weight(in_n).expect(NO_NODE), push Input::new(&buffers) *)
Fixpoint collect (g : graph W) (n : nat) (l : list nat) : res (list (nat * B)) :=
  match l with
  | [] => Ok []
  | u :: t =>
    if n =? u then collect g n t
    else match weight g u with
         | None => Panic PExpect
         | Some w => let* r := collect g n t in Ok ((u, bufs w) :: r)
         end
  end.

(* the `while let Some(n) = dfs_post_order.next(Reversed(&*graph))` loop; [F] is the fuel
   given to every `next`.  The graph handed to `next` is the current one. *)
Fixpoint process_loop (fuel F : nat) (p : processor) (g : graph W) (log : list invocation)
  : res (processor * graph W * list invocation) :=
  match fuel with
  | O => UB
  | S k =>
    let* sr := next (neighbors_in g) F (cap p) (dfs p) in
    let p' := {| dfs := fst sr; cap := cap p |} in
    match snd sr with
    | None => Ok (p', g, rev log)
    | Some n =>
      match weight g n with
      | None => Panic PExpect                      (* node_weight_mut(n).expect(NO_NODE) *)
      | Some w =>
        let* ins := collect g n (neighbors_in g n) in
        let w' := nproc w (map snd ins) in
        process_loop k F p' (set_weight g n w')
                     ({| who := n; from := map fst ins; seen := map snd ins |} :: log)
      end
    end
  end.

(* 2 + sum over the node slots of (1 + in-degree)  ( <= 2 + |V| + |E| ) *)
Definition fuel_of (g : graph W) : nat :=
  2 + fold_right (fun u acc => S (length (neighbors_in g u)) + acc) 0 (seq 0 (length (slots g))).

Definition process (p : processor) (g : graph W) (out : nat)
  : res (processor * graph W * list invocation) :=
  process_loop (fuel_of g) (fuel_of g) (move_to out (reset p g)) g [].

(* sources / sinks: node_identifiers().filter(neighbors_directed(id, dir).next() is None) *)
Definition is_nil (l : list nat) : bool := match l with [] => true | _ => false end.
Definition sources (g : graph W) : list nat :=
  filter (fun id => is_nil (neighbors_in g id)) (node_identifiers g).
Definition sinks (g : graph W) : list nat :=
  filter (fun id => is_nil (neighbors_out g id)) (node_identifiers g).

End Proc.
Arguments invocation B : clear implicits.
