(* The buffer-list operations of the executable model (Graph/NodesRun.v: what the owner of the
   graph does to `NodeData::buffers` around a call) stated through Graph/BufferOps.v. *)
Require Import Floats.SpecFloat.
Require Import List Arith Bool Lia ZArith.
From Flocq Require Import Core BinarySingleNaN.
From Dasp Require Import Base.Res Base.ListX Base.Float Graph.Nodes Graph.BufferOps Graph.BufferOpsProofs Graph.NodesRun.
Import ListNotations.
Local Open Scope nat_scope.

(* resize_with(n, Buffer::default) and resize(n, Buffer::SILENT) do the same to the buffer list:
   length n, the buffers that stay are unchanged, every new one is BLEN samples of silence *)
Lemma resize_default_spec {Smp} (zero : Smp) (n : nat) (out : list (list Smp)) :
  apply_bop zero (BResizeDefault n) out = apply_bop zero (BResize n) out /\
  length (apply_bop zero (BResizeDefault n) out) = n /\
  (forall i, i < n -> i < length out -> nth_error (apply_bop zero (BResizeDefault n) out) i = nth_error out i) /\
  (forall i, i < n -> length out <= i ->
     nth_error (apply_bop zero (BResizeDefault n) out) i = Some (repeat zero BLEN)).
Proof.
  split; [reflexivity|]. cbn [apply_bop].
  exact (vec_resize_spec n (buffer_default zero BLEN) out).
Qed.

(* the comparison observation: one entry per buffer present before and after, entry j true iff
   buffers j have equal length and all their samples compare equal *)
Lemma zip_eq_spec {Smp} (eqs : Smp -> Smp -> bool) (a b : list (list Smp)) :
  length (zip_eq eqs a b) = Nat.min (length a) (length b) /\
  forall j x y, nth_error a j = Some x -> nth_error b j = Some y ->
    nth_error (zip_eq eqs a b) j = Some (buffer_eq eqs x y).
Proof.
  revert b. induction a as [|x a IH]; intros [|y b]; cbn [zip_eq length Nat.min].
  - split; [reflexivity|]. intros [|j] ? ? H; discriminate H.
  - split; [reflexivity|]. intros [|j] ? ? H; discriminate H.
  - split; [reflexivity|]. intros [|j] ? ? _ H; discriminate H.
  - destruct (IH b) as [Hl Hn]. split; [now rewrite Hl|].
    intros [|j] x' y'; cbn [nth_error].
    + now intros [= <-] [= <-].
    + apply Hn.
Qed.
