(* C09: on an acyclic upstream subgraph the graph after process equals the functional evaluation. *)
Require Import List Arith Lia Bool Relations.
From Dasp Require Import Base.Res Base.ListX Graph.Dfs Graph.Process Graph.ProcessSpec Graph.DfsProofs
  Graph.ProcessProofs.
Import ListNotations.

Lemma flat_map_ext_in {A C} (f1 f2 : A -> list C) l :
  (forall a, In a l -> f1 a = f2 a) -> flat_map f1 l = flat_map f2 l.
Proof.
  induction l as [|a l IH]; intros H; simpl; [reflexivity|].
  rewrite (H a (or_introl eq_refl)), IH; [reflexivity|]. intros x Hx. apply H. now right.
Qed.

Section Ev.
Context {W B : Type}.
Variable bufs : W -> B.
Variable nproc : W -> list B -> W.

Notation graph := (graph W).
Notation spec_run := (spec_run bufs nproc).
Notation invoke := (invoke bufs nproc).
Notation inputs_of := (inputs_of bufs).
Notation eval := (eval bufs nproc).

Lemma shape_trans (g1 g2 g3 : graph) : same_shape g1 g2 -> same_shape g2 g3 -> same_shape g1 g3.
Proof.
  intros (E1 & L1 & N1) (E2 & L2 & N2). split; [congruence|]. split; [|congruence].
  intros n. now rewrite L2, L1.
Qed.

Lemma shape_invoke (g : graph) v : same_shape g (invoke g v).
Proof.
  unfold ProcessSpec.invoke. destruct (weight g v) as [w|] eqn:Hw; [|apply shape_refl].
  apply shape_set_weight; [apply shape_refl|]. apply live_weight. eauto.
Qed.

Lemma weight_invoke (g : graph) v m :
  weight (invoke g v) m =
  if v =? m then match weight g v with
                 | Some w => Some (nproc w (map snd (inputs_of g v)))
                 | None => None
                 end
  else weight g m.
Proof.
  unfold ProcessSpec.invoke. destruct (weight g v) as [w|] eqn:Hw.
  - apply weight_set_weight. apply live_lt. apply live_weight. eauto.
  - destruct (Nat.eqb_spec v m) as [<-|]; [exact Hw|reflexivity].
Qed.

Lemma shape_spec_run (g : graph) order : same_shape g (fst (spec_run g order)).
Proof.
  revert g. induction order as [|v t IH]; intros g; simpl; [apply shape_refl|].
  eapply shape_trans; [apply shape_invoke|apply IH].
Qed.

Lemma frame_spec_run (g : graph) order m : ~ In m order ->
  weight (fst (spec_run g order)) m = weight g m.
Proof.
  revert g. induction order as [|v t IH]; intros g H; simpl; [reflexivity|].
  rewrite IH by (intros Hi; apply H; now right).
  rewrite weight_invoke. destruct (Nat.eqb_spec v m) as [->|]; [|reflexivity].
  exfalso. apply H. now left.
Qed.

Lemma map_snd_inputs (g : graph) v :
  map snd (inputs_of g v) =
  flat_map (fun u => match weight g u with Some w => [bufs w] | None => [] end) (ins g v).
Proof.
  unfold ProcessSpec.inputs_of. induction (ins g v) as [|u t IH]; simpl; [reflexivity|].
  rewrite map_app, IH. destruct (weight g u); reflexivity.
Qed.

Lemma map_fst_inputs (g : graph) v : wf g -> map fst (inputs_of g v) = ins g v.
Proof.
  intros Hwf. unfold ProcessSpec.inputs_of.
  assert (H : forall u, In u (ins g v) -> live g u = true).
  { intros u Hu. apply in_ins in Hu. destruct Hu as [He _]. apply (Hwf _ _ He). }
  induction (ins g v) as [|u t IH]; simpl; [reflexivity|].
  rewrite map_app, IH by (intros x Hx; apply H; now right).
  destruct (proj1 (live_weight g u) (H u (or_introl eq_refl))) as [w Hw]. now rewrite Hw.
Qed.

(* the final graph satisfies the evaluation equations at every invoked node whose
   feeding nodes were all invoked before it *)
Lemma final_equation (g : graph) order A v Bt :
  order = A ++ v :: Bt -> NoDup order -> (forall u, pedge g u v -> In u A) ->
  let g' := fst (spec_run g order) in
  weight g' v =
  match weight g v with
  | Some w => Some (nproc w (flat_map (fun u => match weight g' u with Some w' => [bufs w'] | None => [] end)
                                      (ins g v)))
  | None => None
  end.
Proof.
  intros -> Hnd Hpre g'. subst g'. rewrite spec_run_app. cbn [fst].
  set (gA := fst (spec_run g A)).
  apply NoDup_remove_2 in Hnd as Hv.
  assert (HvA : ~ In v A) by (intros H; apply Hv; apply in_or_app; now left).
  assert (HvB : ~ In v Bt) by (intros H; apply Hv; apply in_or_app; now right).
  cbn [ProcessSpec.spec_run fst]. rewrite frame_spec_run by assumption.
  rewrite weight_invoke, Nat.eqb_refl.
  assert (HwA : weight gA v = weight g v) by (apply frame_spec_run; assumption).
  rewrite HwA. destruct (weight g v) as [w|]; [|reflexivity].
  f_equal. f_equal. rewrite map_snd_inputs.
  rewrite (shape_ins g gA (shape_spec_run g A)).
  apply flat_map_ext_in. intros u Hu.
  assert (HuA : In u A) by (apply Hpre; now apply in_ins).
  assert (Hnot : ~ In u (v :: Bt)).
  { intros Hi. apply in_split in HuA. destruct HuA as (A1 & A2 & ->).
    rewrite <- app_assoc in Hnd. simpl in Hnd. apply NoDup_remove_2 in Hnd.
    apply Hnd. apply in_or_app. right. apply in_or_app. now right. }
  change (fst (spec_run (invoke gA v) Bt)) with (fst (spec_run gA (v :: Bt))).
  now rewrite frame_spec_run.
Qed.

Lemma eval_final (g : graph) order : NoDup order ->
  (forall A v Bt, order = A ++ v :: Bt -> forall u, pedge g u v -> In u A) ->
  forall k A v Bt, order = A ++ v :: Bt -> length A < k ->
  eval g k v = weight (fst (spec_run g order)) v.
Proof.
  intros Hnd Hpost. induction k as [|k IH]; intros A v Bt Heq Hlen; [lia|].
  rewrite (final_equation g order A v Bt Heq Hnd (Hpost A v Bt Heq)).
  cbn [ProcessSpec.eval]. destruct (weight g v) as [w|]; [|reflexivity].
  f_equal. f_equal. apply flat_map_ext_in. intros u Hu.
  assert (HuA : In u A) by (apply (Hpost A v Bt Heq); now apply in_ins).
  apply in_split in HuA. destruct HuA as (A1 & A2 & ->).
  rewrite (IH A1 u (A2 ++ v :: Bt)); [reflexivity| |].
  - rewrite Heq, <- app_assoc. reflexivity.
  - rewrite app_length in Hlen. simpl in Hlen. lia.
Qed.

Lemma order_length (g : graph) (order : list nat) :
  NoDup order -> (forall v, In v order -> live g v = true) -> length order <= length (slots g).
Proof.
  intros Hnd Hl. rewrite <- (seq_length (length (slots g)) 0).
  apply NoDup_incl_length; [assumption|]. intros v Hv. apply in_seq.
  specialize (Hl v Hv). apply live_lt in Hl. lia.
Qed.

(* ---------- the theorem ---------- *)
Theorem process_functional p (g : graph) out p' g' log :
  wf g -> live g out = true -> acyclic_upstream g out ->
  process bufs nproc p g out = Ok (p', g', log) ->
  (forall v, upstream g out v -> weight g' v = eval g (length (slots g)) v) /\
  (forall v, ~ upstream g out v -> weight g' v = weight g v).
Proof.
  intros Hwf Hout Hac Hp.
  destruct (process_spec bufs nproc p g out Hwf Hout) as (p1 & order & Hrun & _ & _ & _ & Hup & Hnd & Hpost).
  rewrite Hrun in Hp. injection Hp as _ <- _. split.
  - intros v Hv. apply Hup in Hv as Hin. apply in_split in Hin. destruct Hin as (A & Bt & Heq).
    symmetry. apply (eval_final g order Hnd) with (A := A) (Bt := Bt).
    + intros A0 v0 B0 Heq0 u [He Hne]. eapply (Hpost Hac); eauto.
    + exact Heq.
    + assert (Hlen : length order <= length (slots g)).
      { apply order_length; [assumption|]. intros x Hx. apply Hup in Hx.
        eapply upstream_live; eauto. }
      rewrite Heq, app_length in Hlen. simpl in Hlen. lia.
  - intros v Hv. apply frame_spec_run. intros Hin. apply Hv. now apply Hup.
Qed.

(* pure nodes: the buffers are a function of the graph shape and the node keys only *)
Section Pure.
Context {K : Type}.
Variable key : W -> K.
Variable f : K -> list B -> B.
Hypothesis pure : pure_nodes bufs nproc key f.

Lemma eval_peval (g : graph) k : forall v, option_map bufs (eval g k v) = peval bufs key f g k v.
Proof.
  induction k as [|k IH]; intros v; [reflexivity|]. cbn [ProcessSpec.eval ProcessSpec.peval].
  destruct (weight g v) as [w|]; [|reflexivity]. cbn [option_map]. rewrite pure. f_equal. f_equal.
  apply flat_map_ext. intros u. rewrite <- IH. destruct (eval g k u); reflexivity.
Qed.

Theorem process_functional_pure p (g : graph) out p' g' log :
  wf g -> live g out = true -> acyclic_upstream g out ->
  process bufs nproc p g out = Ok (p', g', log) ->
  forall v, upstream g out v ->
    option_map bufs (weight g' v) = peval bufs key f g (length (slots g)) v.
Proof.
  intros Hwf Hout Hac Hp v Hv.
  destruct (process_functional p g out p' g' log Hwf Hout Hac Hp) as [H _].
  rewrite (H v Hv). apply eval_peval.
Qed.
End Pure.

End Ev.
