(* C16 x C09: GraphNode composed with the traversal model.  Definitions only.

   dasp_graph/src/node/graph.rs: GraphNode::process = copy the input buffers into the designated
   inner nodes; `processor.process(graph, output_node)`; copy the output node's buffers out.
   Graph/Nodes.v models this over an ABSTRACT inner graph ([graph_process gbufs gset gprocess]).
   Here the three parameters are instantiated with the C09 model: the inner graph is a
   [Dfs.graph] of (node, buffers) weights, its processing is [process_r] = the loops of
   Graph/Process.v (DfsPostOrder over the reversed multigraph, inputs collected per incoming
   edge) with the inner node type's own `Node::process`, which may panic.  The inner node type
   is a parameter, so the construction nests: a graph node over graph nodes over ... *)
Require Import List Arith Bool.
From Dasp Require Import Base.Res Base.ListX Graph.Dfs Graph.Process Graph.ProcessSpec Graph.Nodes Graph.NodesSpec.
Import ListNotations.

(* ---- dasp_graph::process with nodes that may panic ---- *)
Section ProcR.
Context {W B : Type}.
Variable bufs : W -> B.
Variable nstep : W -> list B -> res W.      (* Node::process on the node and its own buffers *)

(* Process.process_loop with `node.process(..)` in the [res] monad: a panic inside a node
   propagates out of `process` (nothing catches it there) *)
Fixpoint process_loop_r (fuel F : nat) (p : processor) (g : graph W) (log : list (invocation B))
  : res (processor * graph W * list (invocation B)) :=
  match fuel with
  | O => UB
  | S k =>
    let* sr := next (neighbors_in g) F (cap p) (dfs p) in
    let p' := {| dfs := fst sr; cap := cap p |} in
    match snd sr with
    | None => Ok (p', g, rev log)
    | Some n =>
      match weight g n with
      | None => Panic PExpect
      | Some w =>
        let* ins := collect bufs g n (neighbors_in g n) in
        let* w' := nstep w (map snd ins) in
        process_loop_r k F p' (set_weight g n w')
                       ({| who := n; from := map fst ins; seen := map snd ins |} :: log)
      end
    end
  end.

Definition process_r (p : processor) (g : graph W) (out : nat)
  : res (processor * graph W * list (invocation B)) :=
  process_loop_r (fuel_of g) (fuel_of g) (move_to out (reset p g)) g [].

(* the total node function the C09 theorems are stated for; [process_r] is proved equal to
   [process bufs tot] whenever no node panics (NodesComposeProofs.process_r_total), and that no
   node panics is proved, not assumed *)
Definition tot (w : W) (ins : list B) : W := match nstep w ins with Ok w' => w' | _ => w end.

End ProcR.

(* ---- GraphNode over the C09 model ---- *)
Section GN.
Context {Smp N : Type}.
Notation bufs := (list (list Smp)).
(* Node::process of the inner node type: node state, inputs, the node's own buffers *)
Variable nprocess : N -> list bufs -> bufs -> res (N * bufs).

(* a node weight is NodeData { node, buffers } *)
Definition ibufs (w : N * bufs) : bufs := snd w.
Definition istep (w : N * bufs) (ins : list bufs) : res (N * bufs) := nprocess (fst w) ins (snd w).

(* the state a GraphNode owns: its processor and its graph *)
Definition gstate : Type := (processor * graph (N * bufs))%type.

(* graph.node_weight_mut(n).map(|w| &mut w.buffers) *)
Definition gs_bufs (s : gstate) (n : nat) : option bufs := option_map snd (weight (snd s) n).
Definition gs_set (s : gstate) (n : nat) (b : bufs) : gstate :=
  match weight (snd s) n with
  | Some w => (fst s, set_weight (snd s) n (fst w, b))
  | None => s
  end.
(* processor.process(graph, output_node) *)
Definition gs_process (s : gstate) (on : nat) : res gstate :=
  let* r := process_r ibufs istep (fst s) (snd s) on in Ok (fst (fst r), snd (fst r)).

(* GraphNode::process *)
Definition gn_process (ids : list nat) (on : nat) (s : gstate) (inputs : list bufs) (output : bufs)
  : res (gstate * bufs) :=
  graph_process gs_bufs gs_set gs_process ids on s inputs output.

(* the graph after the copy-in loop, as a function *)
Fixpoint copy_in_spec (g : graph (N * bufs)) (inputs : list bufs) (ids : list nat) : graph (N * bufs) :=
  match inputs, ids with
  | inp :: it, n :: nt =>
    match weight g n with
    | Some w => copy_in_spec (set_weight g n (fst w, zip_copy_spec (snd w) inp)) it nt
    | None => g
    end
  | _, _ => g
  end.

(* the node type one level up: a plain node or a graph node over plain nodes *)
Inductive onode :=
| OLeaf (nd : N)
| OGraph (p : processor) (g : graph (N * bufs)) (ids : list nat) (on : nat).

Definition oprocess (o : onode) (inputs : list bufs) (output : bufs) : res (onode * bufs) :=
  match o with
  | OLeaf nd => let* r := nprocess nd inputs output in Ok (OLeaf (fst r), snd r)
  | OGraph p g ids on =>
    let* r := gn_process ids on (p, g) inputs output in
    Ok (OGraph (fst (fst r)) (snd (fst r)) ids on, snd r)
  end.

End GN.
