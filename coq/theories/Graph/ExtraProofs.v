(* C09: inputs of every invocation, processor reuse, invalid output node, sources/sinks,
   well-formedness of graphs built with the container operations. *)
Require Import List Arith Lia Bool Relations.
From Dasp Require Import Base.Res Base.ListX Graph.Dfs Graph.Process Graph.ProcessSpec Graph.DfsProofs
  Graph.ProcessProofs Graph.EvalProofs.
Import ListNotations.

Definition pair_eq_dec (a b : nat * nat) : {a = b} + {a <> b}.
Proof. decide equality; apply Nat.eq_dec. Defined.

(* ---------- cap independence of next ---------- *)
Section NextCap.
Variable succ : nat -> list nat.
Variable univ : list nat.
Hypothesis univ_closed : forall x y, In x univ -> In y (succ x) -> In y univ.
Variables c1 c2 : nat.
Hypothesis cap1 : forall x, In x univ -> x < c1.
Hypothesis cap2 : forall x, In x univ -> x < c2.

Lemma next_cap fuel : forall s, in_univ univ s -> next succ fuel c1 s = next succ fuel c2 s.
Proof.
  induction fuel as [|k IH]; intros s HU; [reflexivity|]. cbn [next].
  rewrite (step_in_range succ univ c1 cap1 s HU), (step_in_range succ univ c2 cap2 s HU).
  destruct (step_core succ s) as [[s1 [x|]]|] eqn:Hs; try reflexivity.
  apply IH. apply (step_decreases succ univ univ_closed s _ HU Hs).
Qed.

Lemma next_in_univ fuel c : forall s s' r, in_univ univ s -> next succ fuel c s = Ok (s', r) -> in_univ univ s'.
Proof.
  induction fuel as [|k IH]; intros s s' r HU; cbn [next]; [discriminate|].
  unfold step. destruct (stack s) as [|x rr] eqn:Hst.
  - intros [= <- _]. exact HU.
  - destruct (x <? c); [|discriminate].
    destruct (step_core succ s) as [[s1 r1]|] eqn:Hs.
    + pose proof (step_decreases succ univ univ_closed s _ HU Hs) as [HU1 _]. cbn [fst] in HU1.
      destruct r1.
      * intros [= <- _]. exact HU1.
      * now apply IH.
    + intros [= <- _]. exact HU.
Qed.
End NextCap.

Section X.
Context {W B : Type}.
Variable bufs : W -> B.
Variable nproc : W -> list B -> W.

Notation graph := (graph W).
Notation process_loop := (process_loop bufs nproc).
Notation process := (process bufs nproc).
Notation spec_run := (spec_run bufs nproc).
Notation invoke := (invoke bufs nproc).
Notation inputs_of := (inputs_of bufs).
Notation outcome := (@outcome W B).

(* ---------- termination ---------- *)
Theorem process_terminates p (g : graph) out : wf g -> live g out = true ->
  exists p' g' log, process p g out = Ok (p', g', log).
Proof.
  intros Hwf Hout. destruct (process_spec bufs nproc p g out Hwf Hout) as (p' & order & H & _). eauto.
Qed.

(* ---------- which nodes, how often, in which order ---------- *)
Theorem process_order p (g : graph) out p' g' log : wf g -> live g out = true ->
  process p g out = Ok (p', g', log) ->
  (forall v, In v (map (@who B) log) <-> upstream g out v) /\
  NoDup (map (@who B) log) /\
  (acyclic_upstream g out ->
   forall A v Bt, map (@who B) log = A ++ v :: Bt -> forall u, edge g u v -> u <> v -> In u A) /\
  stack (dfs p') = [] /\ cap p' = Nat.max (cap p) (node_bound g).
Proof.
  intros Hwf Hout Hp.
  destruct (process_spec bufs nproc p g out Hwf Hout) as (p1 & order & Hrun & Hc & Hst & _ & Hup & Hnd & Hpost).
  rewrite Hrun in Hp. injection Hp as <- _ <-. rewrite spec_run_who. auto.
Qed.

(* ---------- inputs ---------- *)
Lemma seen_inputs (g : graph) v : wf g ->
  map Some (map snd (inputs_of g v)) = map (fun u => option_map bufs (weight g u)) (ins g v).
Proof.
  intros Hwf. unfold ProcessSpec.inputs_of.
  assert (H : forall u, In u (ins g v) -> live g u = true).
  { intros u Hu. apply in_ins in Hu. destruct Hu as [He _]. apply (Hwf _ _ He). }
  induction (ins g v) as [|u t IH]; simpl; [reflexivity|].
  rewrite map_app, map_app, IH by (intros x Hx; apply H; now right).
  destruct (proj1 (live_weight g u) (H u (or_introl eq_refl))) as [w Hw]. now rewrite Hw.
Qed.

(* every entry of the trace: the inputs are the feeding nodes, one per edge, in petgraph's
   order, and show those nodes' buffers as they are just before this invocation *)
Lemma trace_inputs : forall order (g : graph) L1 i L2, wf g ->
  snd (spec_run g order) = L1 ++ i :: L2 ->
  from i = ins g (who i) /\
  map Some (seen i) =
  map (fun u => option_map bufs (weight (fst (spec_run g (map (@who B) L1))) u)) (from i).
Proof.
  induction order as [|v t IH]; intros g L1 i L2 Hwf Heq; simpl in Heq.
  - destruct L1; discriminate.
  - destruct L1 as [|a L1]; simpl in Heq.
    + injection Heq as <- _. cbn [ProcessSpec.inv_rec from who seen map ProcessSpec.spec_run fst].
      rewrite (map_fst_inputs bufs g v Hwf). split; [reflexivity|]. now apply seen_inputs.
    + injection Heq as <- Heq. cbn [map ProcessSpec.inv_rec who ProcessSpec.spec_run fst].
      pose proof (shape_invoke bufs nproc g v) as Hs.
      destruct (IH (invoke g v) L1 i L2 (shape_wf _ _ Hs Hwf) Heq) as [H1 H2].
      split; [|exact H2]. now rewrite H1, (shape_ins _ _ Hs).
Qed.

Lemma ins_count_aux (l : list (nat * nat)) v u :
  count_occ Nat.eq_dec (map fst (filter (fun e => (snd e =? v) && negb (fst e =? v)) l)) u
  = if u =? v then 0 else count_occ pair_eq_dec l (u, v).
Proof.
  induction l as [|[a b] l IH]; [cbn; now destruct (u =? v)|].
  cbn [filter fst snd].
  destruct (Nat.eqb_spec b v) as [->|Hb]; cbn [andb].
  - destruct (Nat.eqb_spec a v) as [->|Ha]; cbn [negb map fst].
    + rewrite IH. destruct (Nat.eqb_spec u v) as [Huv|Hu]; [reflexivity|].
      rewrite count_occ_cons_neq by congruence. reflexivity.
    + destruct (Nat.eq_dec a u) as [->|Hau].
      * rewrite count_occ_cons_eq by reflexivity. rewrite IH.
        destruct (Nat.eqb_spec u v); [congruence|].
        rewrite (count_occ_cons_eq pair_eq_dec l (x := (u, v)) (y := (u, v))) by reflexivity. reflexivity.
      * rewrite count_occ_cons_neq by assumption. rewrite IH.
        destruct (u =? v); [reflexivity|]. rewrite count_occ_cons_neq by congruence. reflexivity.
  - rewrite IH. destruct (u =? v); [reflexivity|]. rewrite count_occ_cons_neq by congruence. reflexivity.
Qed.

(* one input per edge u -> v with u <> v, none for v itself *)
Lemma ins_count (g : graph) v u :
  count_occ Nat.eq_dec (ins g v) u = if u =? v then 0 else count_occ pair_eq_dec (edges g) (u, v).
Proof. unfold ins. now rewrite ins_count_aux, count_occ_rev. Qed.

Lemma ins_not_self (g : graph) v : ~ In v (ins g v).
Proof. intros H. apply in_ins in H. destruct H as [_ H]. congruence. Qed.

Theorem process_inputs p (g : graph) out p' g' log : wf g -> live g out = true ->
  process p g out = Ok (p', g', log) ->
  (g', log) = spec_run g (map (@who B) log) /\
  forall L1 i L2, log = L1 ++ i :: L2 ->
    from i = ins g (who i) /\ ~ In (who i) (from i) /\
    (forall u, count_occ Nat.eq_dec (from i) u =
               if u =? who i then 0 else count_occ pair_eq_dec (edges g) (u, who i)) /\
    map Some (seen i) =
    map (fun u => option_map bufs (weight (fst (spec_run g (map (@who B) L1))) u)) (from i).
Proof.
  intros Hwf Hout Hp.
  destruct (process_spec bufs nproc p g out Hwf Hout) as (p1 & order & Hrun & _).
  rewrite Hrun in Hp. injection Hp as _ <- <-. rewrite spec_run_who. split.
  - now destruct (spec_run g order).
  - intros L1 i L2 Heq. destruct (trace_inputs order g L1 i L2 Hwf Heq) as [H1 H2].
    split; [exact H1|]. split; [rewrite H1; apply ins_not_self|]. split; [|exact H2].
    intros u. rewrite H1. apply ins_count.
Qed.

(* ---------- reuse: the outcome does not depend on the processor's past ---------- *)
Lemma loop_cap (g0 : graph) c1 c2 F : wf g0 ->
  (forall x, live g0 x = true -> x < c1) -> (forall x, live g0 x = true -> x < c2) ->
  forall k s (g : graph) log, same_shape g0 g -> in_univ (node_identifiers g0) s ->
  outcome (process_loop k F {| dfs := s; cap := c1 |} g log) =
  outcome (process_loop k F {| dfs := s; cap := c2 |} g log).
Proof.
  intros Hwf H1 H2. induction k as [|k IH]; intros s g log Hs HU; [reflexivity|].
  cbn [Process.process_loop cap dfs].
  rewrite (next_shape g0 c1 Hwf g F s Hs), (next_shape g0 c2 Hwf g F s Hs).
  rewrite (next_cap (ins g0) (node_identifiers g0) (univ_closed g0 Hwf) c1 c2
             (univ_cap g0 c1 H1) (univ_cap g0 c2 H2) F s HU).
  destruct (next (ins g0) F c2 s) as [[s' r]| |] eqn:Hn; cbn [bind fst snd]; try reflexivity.
  destruct r as [x|]; [|reflexivity].
  destruct (weight g x) as [w|] eqn:Hw; [|reflexivity].
  destruct (collect bufs g x (neighbors_in g x)) as [ins0| |]; cbn [bind]; try reflexivity.
  apply IH.
  - apply shape_set_weight; [assumption|]. apply live_weight. eauto.
  - eapply next_in_univ; [apply (univ_closed g0 Hwf)|exact HU|exact Hn].
Qed.

Theorem process_reuse p1 p2 (g : graph) out : wf g -> live g out = true ->
  outcome (process p1 g out) = outcome (process p2 g out).
Proof.
  intros Hwf Hout. unfold Process.process.
  apply (loop_cap g _ _ (fuel_of g) Hwf).
  - intros x Hx. apply live_bound in Hx. cbn. lia.
  - intros x Hx. apply live_bound in Hx. cbn. lia.
  - apply shape_refl.
  - intros x [<-|[]]. now apply in_node_identifiers.
Qed.

(* whatever the processor went through before, a call starts from the state of a new one,
   except for the bit-set length, which only grows *)
Lemma reset_fresh p (g : graph) : dfs (reset p g) = dfs (reset new_processor g) /\
  cap (reset new_processor g) <= cap (reset p g).
Proof. split; [reflexivity|]. cbn. lia. Qed.

(* an output node that does not exist: a panic, before any node is invoked *)
Lemma next_no_node (g : graph) out c n : live g out = false -> (out <? c) = true ->
  next (neighbors_in g) (S (S n)) c {| stack := [out]; disc := []; fin := [] |}
  = Ok ({| stack := []; disc := [out]; fin := [out] |}, Some out).
Proof.
  intros Hl Hc. cbn [next]. unfold step at 1. cbn [stack]. rewrite Hc.
  unfold step_core at 1. cbn [stack disc fin mem existsb]. unfold neighbors_in. rewrite Hl.
  cbn [filter rev app]. unfold step. cbn [stack]. rewrite Hc.
  unfold step_core. cbn [stack disc fin mem existsb]. rewrite Nat.eqb_refl. cbn [orb]. reflexivity.
Qed.

Theorem process_no_node p (g : graph) out : live g out = false ->
  exists k, process p g out = Panic k.
Proof.
  intros Hout. unfold Process.process, fuel_of.
  set (n := fold_right _ _ _). change (2 + n) with (S (S n)).
  remember (S n) as k eqn:Hk. cbn [Process.process_loop].
  cbn [move_to reset dfs cap st_empty disc fin].
  set (c := Nat.max (cap p) (node_bound g)).
  destruct (out <? c) eqn:Hc.
  - rewrite Hk, (next_no_node g out c n Hout Hc). cbn [bind fst snd].
    unfold live in Hout. destruct (weight g out); [discriminate|]. eauto.
  - cbn [next]. unfold step. cbn [stack]. rewrite Hc. cbn [bind]. eauto.
Qed.

(* ---------- sources / sinks ---------- *)
Lemma filter_nil_iff {A} (f : A -> bool) l : filter f l = [] <-> forall x, In x l -> f x = false.
Proof.
  split.
  - intros H x Hx. destruct (f x) eqn:E; [|reflexivity].
    assert (Hi : In x (filter f l)) by (apply filter_In; now split). rewrite H in Hi. destruct Hi.
  - apply filter_none.
Qed.

Theorem sources_spec (g : graph) v :
  In v (sources g) <-> live g v = true /\ forall u, ~ edge g u v.
Proof.
  unfold sources. rewrite filter_In, in_node_identifiers. unfold neighbors_in, edge.
  split; intros [Hl H]; (split; [exact Hl|]); rewrite Hl in *.
  - intros u Hu. destruct (map fst _) eqn:E in H; [|discriminate].
    apply map_eq_nil in E. rewrite filter_nil_iff in E.
    specialize (E (u, v) (proj1 (in_rev _ _) Hu)). simpl in E. rewrite Nat.eqb_refl in E. discriminate.
  - rewrite filter_none; [reflexivity|]. intros [a b] Hab. apply in_rev in Hab. simpl.
    destruct (Nat.eqb_spec b v) as [->|]; [|reflexivity]. exfalso. apply (H a Hab).
Qed.

Theorem sinks_spec (g : graph) v :
  In v (sinks g) <-> live g v = true /\ forall u, ~ edge g v u.
Proof.
  unfold sinks. rewrite filter_In, in_node_identifiers. unfold neighbors_out, edge.
  split; intros [Hl H]; (split; [exact Hl|]); rewrite Hl in *.
  - intros u Hu. destruct (map snd _) eqn:E in H; [|discriminate].
    apply map_eq_nil in E. rewrite filter_nil_iff in E.
    specialize (E (v, u) (proj1 (in_rev _ _) Hu)). simpl in E. rewrite Nat.eqb_refl in E. discriminate.
  - rewrite filter_none; [reflexivity|]. intros [a b] Hab. apply in_rev in Hab. simpl.
    destruct (Nat.eqb_spec a v) as [->|]; [|reflexivity]. exfalso. apply (H b Hab).
Qed.

Lemma sources_nodup (g : graph) : NoDup (sources g) /\ NoDup (sinks g).
Proof. split; apply NoDup_filter, NoDup_filter, seq_NoDup. Qed.

(* ---------- graphs built with the container operations are well formed ---------- *)
Lemma wf_empty : wf (@empty_graph W).
Proof. intros u v []. Qed.

Lemma wf_set_weight (g : graph) n w : live g n = true -> wf g -> wf (set_weight g n w).
Proof. intros Hl. apply shape_wf. apply shape_set_weight; [apply shape_refl|assumption]. Qed.

Lemma wf_add_node (g : graph) w : wf g -> wf (fst (add_node w g)).
Proof.
  intros Hwf. unfold add_node.
  assert (Hmono : forall sl', (forall m, live g m = true -> exists w', nth_error sl' m = Some (Some w')) ->
            wf (@Build_graph W sl' (edges g) (tl (free g)))).
  { intros sl' H u v He. destruct (Hwf u v He) as [Hu Hv].
    destruct (H u Hu) as [wu Eu], (H v Hv) as [wv Ev].
    unfold live, weight; cbn [slots]. now rewrite Eu, Ev. }
  destruct (free g) as [|i fr] eqn:Hf; cbn [fst].
  - apply (Hmono (slots g ++ [Some w])). intros m Hm. pose proof (live_lt g m Hm) as Hlt.
    rewrite nth_error_app1 by assumption. unfold live, weight in Hm.
    destruct (nth_error (slots g) m) as [[w'|]|]; try discriminate. eauto.
  - apply (Hmono (set_nth i (Some w) (slots g))). intros m Hm. rewrite nth_error_set_nth.
    destruct ((i =? m) && (i <? length (slots g))); [eauto|].
    unfold live, weight in Hm. destruct (nth_error (slots g) m) as [[w'|]|]; try discriminate. eauto.
Qed.

Lemma wf_add_edge (g g' : graph) a b : wf g -> add_edge a b g = Ok g' -> wf g'.
Proof.
  intros Hwf. unfold add_edge. destruct (live g a && live g b) eqn:Hl; [|discriminate].
  intros [= <-]. apply andb_true_iff in Hl. intros u v He. unfold edge in He. cbn [edges] in He.
  apply in_app_or in He. destruct He as [He|[[= <- <-]|[]]].
  - apply (Hwf u v He).
  - exact Hl.
Qed.

Lemma wf_remove_node (g : graph) a : wf g -> wf (fst (remove_node a g)).
Proof.
  intros Hwf. unfold remove_node. destruct (live g a) eqn:Hl; [|exact Hwf]. cbn [fst].
  intros u v He. unfold edge in He. cbn [edges] in He. apply filter_In in He.
  destruct He as [He Hne]. simpl in Hne. apply andb_true_iff in Hne. destruct Hne as [Hu Hv].
  apply negb_true_iff, Nat.eqb_neq in Hu. apply negb_true_iff, Nat.eqb_neq in Hv.
  destruct (Hwf u v He) as [Lu Lv]. unfold live, weight in *; cbn [slots].
  rewrite !nth_error_set_nth_neq by congruence. now split.
Qed.

End X.
