(* The inner-graph instance used by the executable model (NodesRun.v: a star of in-nodes
   around a core node) satisfies the buffer-lens laws that the GraphNode theorem assumes. *)
Require Import Floats.SpecFloat.
Require Import List Arith Bool Lia.
From Dasp Require Import Base.Res Base.ListX Graph.Nodes Graph.NodesRun.
Import ListNotations.
Local Open Scope nat_scope.

Section Star.
Context {Smp : Type}.
Notation star := (@star Smp).

Lemma star_get_set_eq (g : star) n b : star_bufs g n <> None -> star_bufs (star_set g n b) n = Some b.
Proof.
  destruct g as [[ins cb] c]. unfold star_bufs, star_set.
  destruct (Nat.ltb_spec n (length ins)) as [H|H].
  - intros _. rewrite set_nth_length. destruct (Nat.ltb_spec n (length ins)); try lia.
    now apply nth_error_set_nth_eq.
  - destruct (Nat.eqb_spec n (length ins)) as [E|E].
    + intros _. destruct (Nat.ltb_spec n (length ins)); try lia. destruct (Nat.eqb_spec n (length ins)); try lia.
      reflexivity.
    + congruence.
Qed.

Lemma star_get_set_neq (g : star) n m b : m <> n -> star_bufs (star_set g n b) m = star_bufs g m.
Proof.
  intros Hne. destruct g as [[ins cb] c]. unfold star_bufs, star_set.
  destruct (Nat.ltb_spec n (length ins)) as [H|H].
  - rewrite set_nth_length. destruct (m <? length ins); auto. apply nth_error_set_nth_neq. congruence.
  - destruct (Nat.eqb_spec n (length ins)) as [E|E]; auto.
    destruct (Nat.ltb_spec m (length ins)); auto. destruct (Nat.eqb_spec m (length ins)); auto. lia.
Qed.

End Star.
