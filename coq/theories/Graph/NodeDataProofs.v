(* Facts about the NodeData constructors (Graph/NodeData.v) and about a constructed node once it
   sits in a graph container (Graph/Dfs.v): what it holds, hence what an Input referring to it
   shows (Graph/Process.v with [bufs := nd_buffers]) until the node is processed. *)
Require Import List Arith Bool Lia.
From Dasp Require Import Base.Res Base.ListX Graph.Dfs Graph.NodeData.
Import ListNotations.

Lemma construct_spec {Buf T} (silent : Buf) (c : ctor) (node : T) :
  nd_node (construct silent c node) = node /\
  nd_buffers (construct silent c node) = repeat silent (ctor_buffers c).
Proof. destruct c; split; reflexivity. Qed.

(* boxing with any [box]: the node is boxed, the buffers are the documented ones; the explicit
   forms keep the buffers they are given *)
Lemma constructors_spec {Buf T U} (silent : Buf) (box : T -> U) (node : T) (buffers : list Buf) :
  nd_new node buffers = mk_node_data node buffers /\
  nd_new1 silent node = mk_node_data node [silent] /\
  nd_new2 silent node = mk_node_data node [silent; silent] /\
  nd_boxed box node buffers = mk_node_data (box node) buffers /\
  nd_boxed1 silent box node = mk_node_data (box node) [silent] /\
  nd_boxed2 silent box node = mk_node_data (box node) [silent; silent].
Proof. repeat split; reflexivity. Qed.

Section InGraph.
Context {W : Type}.
Notation graph := (@graph W).

(* the free list of a StableGraph names slots of the slot vector (vacant ones) *)
Definition free_ok (g : graph) : Prop := forall i, In i (free g) -> i < length (slots g).

Lemma free_ok_empty : free_ok (@empty_graph W).
Proof. intros i []. Qed.

Lemma live_lt' (g : graph) n : live g n = true -> n < length (slots g).
Proof.
  unfold live, weight. destruct (nth_error (slots g) n) eqn:E; [|discriminate].
  intros _. apply nth_error_Some. congruence.
Qed.

Lemma add_node_weight (g : graph) (w : W) : free_ok g ->
  weight (fst (add_node w g)) (snd (add_node w g)) = Some w /\
  (forall m, m <> snd (add_node w g) -> weight (fst (add_node w g)) m = weight g m) /\
  free_ok (fst (add_node w g)).
Proof.
  intros Hf. unfold add_node. destruct (free g) as [|i fr] eqn:E; cbn [fst snd].
  - split; [|split].
    + unfold weight; cbn [slots]. rewrite nth_error_app2 by lia. now rewrite Nat.sub_diag.
    + intros m Hm. unfold weight; cbn [slots].
      destruct (Nat.lt_ge_cases m (length (slots g))) as [Hlt|Hge].
      * now rewrite nth_error_app1 by assumption.
      * assert (Hn : nth_error (slots g) m = None) by now apply nth_error_None.
        rewrite Hn. assert (Hn' : nth_error (slots g ++ [Some w]) m = None).
        { apply nth_error_None. rewrite app_length. cbn. lia. }
        now rewrite Hn'.
    + intros j []. 
  - assert (Hi : i < length (slots g)) by (apply Hf; rewrite E; now left).
    split; [|split].
    + unfold weight; cbn [slots]. now rewrite nth_error_set_nth_eq by assumption.
    + intros m Hm. unfold weight; cbn [slots]. now rewrite nth_error_set_nth_neq by congruence.
    + intros j Hj. cbn [free slots] in *. rewrite set_nth_length. apply Hf. rewrite E. now right.
Qed.

Lemma free_ok_add_edge (g g' : graph) a b : free_ok g -> add_edge a b g = Ok g' -> free_ok g'.
Proof.
  unfold add_edge. intros Hf. destruct (live g a && live g b); [|discriminate].
  intros [= <-]. exact Hf.
Qed.

Lemma free_ok_remove_node (g : graph) a : free_ok g -> free_ok (fst (remove_node a g)).
Proof.
  intros Hf. unfold remove_node. destruct (live g a) eqn:Hl; [|exact Hf]. cbn [fst].
  intros j Hj. cbn [free slots] in *. rewrite set_nth_length. destruct Hj as [<-|Hj].
  - now apply live_lt'.
  - now apply Hf.
Qed.

Lemma free_ok_set_weight (g : graph) n w : free_ok g -> free_ok (set_weight g n w).
Proof. intros Hf j Hj. unfold set_weight in *. cbn [free slots] in *. rewrite set_nth_length. now apply Hf. Qed.

End InGraph.

(* a node made by one of the short-hand constructors and added to a graph (Graph::add_node /
   StableGraph::add_node, the latter possibly into a re-used vacant slot): the graph holds it under
   the returned index, every other slot is as before, and what an Input referring to it shows
   ([nd_buffers], the [bufs] of Graph/Process.v) is the documented number of silent buffers *)
Theorem constructed_node_in_graph {Buf T} (silent : Buf) (c : ctor) (node : T)
  (g : @graph (node_data Buf T)) : free_ok g ->
  let g' := fst (add_node (construct silent c node) g) in
  let i := snd (add_node (construct silent c node) g) in
  option_map nd_node (weight g' i) = Some node /\
  option_map nd_buffers (weight g' i) = Some (repeat silent (ctor_buffers c)) /\
  (forall m, m <> i -> weight g' m = weight g m) /\
  free_ok g'.
Proof.
  intros Hf g' i. destruct (add_node_weight g (construct silent c node) Hf) as (Hw & Ho & Hf').
  destruct (construct_spec silent c node) as [Hn Hb].
  subst g' i. rewrite Hw. cbn [option_map]. rewrite Hn, Hb. auto.
Qed.

Theorem free_ok_by_construction {W : Type} :
  free_ok (@empty_graph W) /\
  (forall (g : @graph W) w, free_ok g -> free_ok (fst (add_node w g))) /\
  (forall (g g' : @graph W) a b, free_ok g -> add_edge a b g = Ok g' -> free_ok g') /\
  (forall (g : @graph W) a, free_ok g -> free_ok (fst (remove_node a g))) /\
  (forall (g : @graph W) n w, free_ok g -> free_ok (set_weight g n w)).
Proof.
  split; [exact free_ok_empty|]. split; [intros g w Hf; exact (proj2 (proj2 (add_node_weight g w Hf)))|].
  split; [exact free_ok_add_edge|]. split; [exact free_ok_remove_node|exact free_ok_set_weight].
Qed.
