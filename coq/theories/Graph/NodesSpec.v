(* What the built-in nodes are documented to compute, as closed forms over lists. *)
Require Import List Arith Bool.
From Dasp Require Import Base.Res Base.ListX Ring.Bounded Ring.Fixed Ring.FixedSpec Graph.Nodes.
Import ListNotations.

Section Spec.
Context {Smp : Type}.
Variable zero : Smp.
Variable add : Smp -> Smp -> Smp.
Variable LEN : nat.

Notation buffer := (list Smp).
Notation bufs := (list (list Smp)).

(* a Buffer has exactly LEN samples (the Rust type is [f32; LEN]) *)
Definition wfb (b : buffer) : Prop := length b = LEN.
Definition wfbs (o : bufs) : Prop := Forall wfb o.

(* o[ch][j] *)
Definition nth2 (o : bufs) (ch j : nat) : option Smp :=
  match nth_error o ch with Some b => nth_error b j | None => None end.

(* sample i of every buffer of the list, in order *)
Definition column (l : bufs) (i : nat) : list Smp :=
  flat_map (fun b => match nth_error b i with Some x => [x] | None => [] end) l.

(* Sum: sample i of channel c of every input that has a channel c, in input order *)
Definition chan_samples (inputs : list bufs) (c i : nat) : list Smp :=
  flat_map (fun inp => match nth_error inp c with
                       | Some ib => match nth_error ib i with Some x => [x] | None => [] end
                       | None => []
                       end) inputs.

Definition sum_row (inputs : list bufs) (c : nat) : buffer :=
  map (fun i => fold_left add (chan_samples inputs c i) zero) (seq 0 LEN).

Definition sum_spec (inputs : list bufs) (nout : nat) : bufs := map (sum_row inputs) (seq 0 nout).

(* SumBuffers: all buffers of all inputs, input by input, buffer by buffer *)
Definition sumb_row (inputs : list bufs) : buffer :=
  map (fun i => fold_left add (column (concat inputs) i) zero) (seq 0 LEN).

(* `for (d, s) in dst.iter_mut().zip(src) { d.copy_from_slice(s) }`: the first
   min(|dst|, |src|) buffers are src's, the surplus of dst is untouched *)
Definition zip_copy_spec (dst src : bufs) : bufs := firstn (length dst) src ++ skipn (length src) dst.

(* Delay: what channel c is fed by one call (the first input's buffer c, if any) *)
Definition chan_in (c : nat) (inputs : list bufs) : option buffer :=
  match inputs with [] => None | inp :: _ => nth_error inp c end.

(* the input stream of channel c over consecutive calls *)
Definition in_stream (c : nat) (calls : list (list bufs)) : list Smp :=
  flat_map (fun call => match chan_in c call with Some ib => ib | None => [] end) calls.

(* the output stream of channel c over the calls that fed it *)
Fixpoint fed_stream (c : nat) (calls : list (list bufs)) (outs : list bufs) : list Smp :=
  match calls, outs with
  | call :: ct, o :: ot =>
    match chan_in c call, nth_error o c with
    | Some _, Some ob => ob ++ fed_stream c ct ot
    | _, _ => fed_stream c ct ot
    end
  | _, _ => []
  end.

(* calls that come with their own buffer list: channel c is fed when the first input has a
   buffer c AND the node currently has an output buffer c *)
Definition chan_fed (c : nat) (call : list bufs * bufs) : option buffer :=
  match chan_in c (fst call), nth_error (snd call) c with
  | Some ib, Some _ => Some ib
  | _, _ => None
  end.

Definition in_stream_v (c : nat) (calls : list (list bufs * bufs)) : list Smp :=
  flat_map (fun call => match chan_fed c call with Some ib => ib | None => [] end) calls.

Fixpoint fed_stream_v (c : nat) (calls : list (list bufs * bufs)) (outs : list bufs) : list Smp :=
  match calls, outs with
  | call :: ct, o :: ot =>
    match chan_fed c call, nth_error o c with
    | Some _, Some ob => ob ++ fed_stream_v c ct ot
    | _, _ => fed_stream_v c ct ot
    end
  | _, _ => []
  end.

(* one channel of one delay call *)
Definition chan_rel (r : option (fixed Smp)) (ib ob : option buffer)
  (r' : option (fixed Smp)) (ob' : option buffer) : Prop :=
  match r, ib, ob with
  | Some r0, Some ib0, Some _ =>
    exists r1, r' = Some r1 /\ flen r1 = flen r0 /\ InvF r1 /\ fq r1 = skipn LEN (fq r0 ++ ib0) /\
               ob' = Some (firstn LEN (fq r0 ++ ib0))
  | _, _, _ => r' = r /\ ob' = ob
  end.

(* signal node: state after m pulls, and the m-th frame *)
Section Sig.
Context {St : Type}.
Variable next : St -> list Smp * St.
Fixpoint sig_state (m : nat) (st : St) : St :=
  match m with O => st | S k => sig_state k (snd (next st)) end.
Definition sig_frame (m : nat) (st : St) : list Smp := fst (next (sig_state m st)).
End Sig.

End Spec.
