(* Non-vacuity for the composed graph-node theorems: a graph node whose inner graph is the
   diamond  0 -> 1 -> 3, 0 -> 2 -> 3  (Pass, Pass, Pass, Sum; input node 0, output node 3) sits
   in an outer graph  src -> t  and is processed by the C09 model.  Samples are naturals, a
   buffer has BLEN = 64 of them.  Also: a feedback cycle through a Delay (outside the acyclic
   theorem, inside gn_process_c09) and a two-level nesting, by computation. *)
Require Import Floats.SpecFloat.
Require Import List Arith Bool Lia Relations.
From Dasp Require Import Base.Res Base.ListX Ring.Fixed Ring.FixedSpec Graph.Dfs Graph.Process Graph.ProcessSpec
  Graph.ProcessProofs Graph.GraphExamples Graph.Nodes Graph.NodesSpec Graph.NodesProofs Graph.NodesRun
  Graph.NodesCompose Graph.NodesComposeProofs Graph.NodesComposeInst.
Import ListNotations.
Local Open Scope nat_scope.

Notation nbufs := (list (list nat)).
Definition cbuf (k : nat) : list nat := repeat k BLEN.
Definition np := nprocess 0 Nat.add (Smp:=nat).
Definition nokb := builtin_ok (Smp:=nat).

Definition mk {W} (ws : list W) (es : list (nat * nat)) : graph W := {| slots := map Some ws; edges := es; free := [] |}.

(* the inner diamond: every node one buffer, initially 1s *)
Definition inner : graph (node nat * nbufs) :=
  mk [(NPass, [cbuf 1]); (NPass, [cbuf 1]); (NPass, [cbuf 1]); (NSum, [cbuf 1])] [(0,1); (0,2); (1,3); (2,3)].

(* the outer graph: a source holding 5s feeds the graph node, whose own buffer holds 9s *)
Definition outer : graph (@onode nat (node nat) * nbufs) :=
  mk [(OLeaf NPass, [cbuf 5]); (OGraph new_processor inner [0] 3, [cbuf 9])] [(0,1)].

Lemma cbuf_wf k : wfbs BLEN [cbuf k].
Proof. repeat constructor. Qed.

Lemma inner_ok : gn_ok BLEN nokb inner [0] 3.
Proof.
  split; [apply wfb_wf; reflexivity|]. split; [reflexivity|]. split.
  - apply all_ok_slots. repeat constructor.
  - intros n [<-|[]]. reflexivity.
Qed.

Lemma outer_hyps : wf outer /\ live outer 1 = true /\ acyclic_upstream outer 1 /\
  all_ok (wok BLEN (onok BLEN nokb)) outer /\ acyclic_upstream inner 3.
Proof.
  split; [apply wfb_wf; reflexivity|]. split; [reflexivity|]. split; [apply topob_acyclic; reflexivity|]. split.
  - apply all_ok_slots. constructor; [split; [exact I|apply cbuf_wf]|].
    constructor; [split; [exact inner_ok|apply cbuf_wf]|constructor].
  - apply topob_acyclic. reflexivity.
Qed.

(* the theorem applies ... *)
Example outer_composed :
  exists p' G' log, process_r ibufs (istep (oprocess np)) new_processor outer 1 = Ok (p', G', log) /\
    exists pi' gi' wo,
      weight G' 1 = Some (OGraph pi' gi' [0] 3, zip_copy_spec [cbuf 9] (snd wo)) /\
      eval ibufs (tot (istep np)) (copy_in_spec inner [[cbuf 5]] [0]) 4 3 = Some wo.
Proof.
  destruct outer_hyps as (Hwf & Hl & Hac & Hok & Haci).
  destruct (outer_graph_node_composed BLEN np nokb (builtin_process_ok 0 Nat.add) new_processor outer 1 Hwf Hl Hac Hok)
    as (p' & G' & log & Hr & Hp & Hok' & H).
  exists p', G', log. split; [exact Hr|].
  destruct (H 1 new_processor inner [0] 3 [cbuf 9]) as (pi' & gi' & wo & E1 & E2 & _); [apply rt_refl|reflexivity|exact Haci|].
  exists pi', gi', wo. split; [exact E1|].
  (* INS = the final buffers of the outer feeder of node 1, i.e. of the source *)
  assert (Hsrc : weight G' 0 = Some (OLeaf NPass, [cbuf 5])).
  { clear - Hp. vm_compute in Hp. injection Hp as _ <- _. reflexivity. }
  change (ins outer 1) with [0] in E2. cbn [flat_map app] in E2. rewrite Hsrc in E2. exact E2.
Qed.

(* ... and says what the computation gives: 5 through both branches, summed: 10s *)
Example outer_computed :
  exists p' G' log, process_r ibufs (istep (oprocess np)) new_processor outer 1 = Ok (p', G', log) /\
    option_map snd (weight G' 1) = Some [cbuf 10] /\
    option_map snd (eval ibufs (tot (istep np)) (copy_in_spec inner [[cbuf 5]] [0]) 4 3) = Some [cbuf 10].
Proof. vm_compute. do 3 eexists. split; [reflexivity|]. split; reflexivity. Qed.

(* a feedback cycle through a Delay of 64 samples: in(0) -> sum(1) -> delay(2) -> sum(1), output
   node 1.  Not acyclic: gn_process_c09 applies (no panic, copy-in / C09 process / copy-out); the
   C09 order processes the delay before the sum (in, delay, sum), so the delay is fed the sum's
   buffer of the PREVIOUS call and the sum adds the input (3s) to what the delay emits: the ring
   content (7s) in the first call, the sum buffer as it was before the first call (0s) in the
   second, the first call's sum (10s) in the third. *)
Definition ring7 : fixed nat := {| first := 0; fdata := repeat 7 64 |}.
Definition fb_inner : graph (node nat * nbufs) :=
  mk [(NPass, [cbuf 0]); (NSum, [cbuf 0]); (NDelay [ring7], [cbuf 0])] [(0,1); (1,2); (2,1)].

Lemma fb_ok : gn_ok BLEN nokb fb_inner [0] 1.
Proof.
  split; [apply wfb_wf; reflexivity|]. split; [reflexivity|]. split.
  - apply all_ok_slots. repeat constructor; cbn; lia.
  - intros n [<-|[]]. reflexivity.
Qed.

Definition fb_after (s : @gstate nat (node nat)) (out : nbufs) : @gstate nat (node nat) :=
  match gn_process np [0] 1 s [[cbuf 3]] out with Ok r => fst r | _ => s end.
Definition fb_s1 := fb_after (new_processor, fb_inner) [cbuf 0].
Definition fb_s2 := fb_after fb_s1 [cbuf 10].

Example feedback_three_calls :
  rmap snd (gn_process np [0] 1 (new_processor, fb_inner) [[cbuf 3]] [cbuf 0]) = Ok [cbuf 10] /\
  rmap snd (gn_process np [0] 1 fb_s1 [[cbuf 3]] [cbuf 10]) = Ok [cbuf 3] /\
  rmap snd (gn_process np [0] 1 fb_s2 [[cbuf 3]] [cbuf 3]) = Ok [cbuf 13].
Proof. repeat split; vm_compute; reflexivity. Qed.

Print Assumptions outer_graph_node_composed.
Print Assumptions gn_process_c09.
Print Assumptions gn_process_functional.
Print Assumptions builtin_process_ok.
