(* Proofs that the node models (Nodes.v) compute the closed forms of NodesSpec.v:
   no panic, no UB, for every input count, buffer count, buffer length, call count. *)
Require Import List Arith Bool Lia.
From Dasp Require Import Base.Res Base.ListX Ring.Bounded Ring.BoundedSpec Ring.Fixed Ring.FixedSpec
  Ring.FixedProofs Graph.Nodes Graph.NodesSpec.
Import ListNotations.

(* ---- list helpers ---- *)
Lemma nth_error_seq a n i : i < n -> nth_error (seq a n) i = Some (a + i).
Proof.
  revert a i; induction n as [|n IH]; intros a [|i] H; simpl; try lia.
  - f_equal; lia.
  - rewrite IH by lia. f_equal; lia.
Qed.

Lemma nth_error_map_seq {B} (f : nat -> B) a n i : i < n -> nth_error (map f (seq a n)) i = Some (f (a + i)).
Proof. intros H. rewrite nth_error_map_in, nth_error_seq by auto. reflexivity. Qed.

Lemma map_const_seq {B} (x : B) a n : map (fun _ => x) (seq a n) = repeat x n.
Proof. revert a; induction n as [|n IH]; intros a; simpl; [reflexivity|]. now rewrite IH. Qed.

Lemma firstn_plus {B} n m (l : list B) : firstn (n + m) l = firstn n l ++ firstn m (skipn n l).
Proof. revert l; induction n as [|n IH]; intros [|x l]; simpl; auto. - now rewrite firstn_nil. - now rewrite IH. Qed.

Lemma skipn_cons_nth {B} (l : list B) i : i < length l ->
  exists x, nth_error l i = Some x /\ skipn i l = x :: skipn (S i) l.
Proof.
  revert i; induction l as [|a l IH]; intros [|i] H; simpl in *; try lia.
  - eauto.
  - destruct (IH i ltac:(lia)) as [x [E1 E2]]. exists x. split; auto.
Qed.

Lemma Forall_firstn' {B} (P : B -> Prop) n (l : list B) : Forall P l -> Forall P (firstn n l).
Proof. revert l; induction n as [|n IH]; intros [|x l] H; simpl; auto. inversion H; subst. constructor; auto. Qed.

Lemma Forall_skipn' {B} (P : B -> Prop) n (l : list B) : Forall P l -> Forall P (skipn n l).
Proof. revert l; induction n as [|n IH]; intros [|x l] H; simpl; auto. inversion H; subst. auto. Qed.

Section Proofs.
Context {Smp : Type}.
Variable zero : Smp.
Variable add : Smp -> Smp -> Smp.
Variable LEN : nat.

Notation buffer := (list Smp).
Notation bufs := (list (list Smp)).
Notation wfb := (wfb LEN).
Notation wfbs := (wfbs LEN).
Notation silent := (silent zero LEN).

Lemma wfbs_nth (o : bufs) c b : wfbs o -> nth_error o c = Some b -> wfb b.
Proof. intros H E. eapply Forall_forall in H; [exact H|]. eapply nth_error_In; eauto. Qed.

Lemma copy_ok (d s : buffer) : length d = length s -> copy_from_slice d s = Ok s.
Proof. intros H. unfold copy_from_slice. now rewrite H, Nat.eqb_refl. Qed.

Lemma silent_wf : wfb silent.
Proof. apply repeat_length. Qed.

Lemma silence_ok (b : buffer) : wfb b -> silence zero LEN b = Ok silent.
Proof. intros H. apply copy_ok. rewrite H. symmetry. apply silent_wf. Qed.

Lemma zip_add_ok : forall a b : buffer, length a = length b ->
  exists r, zip_add add a b = Ok r /\ length r = length a /\
    forall i x y, nth_error a i = Some x -> nth_error b i = Some y -> nth_error r i = Some (add x y).
Proof.
  induction a as [|x a IH]; intros [|y b] H; simpl in *; try discriminate.
  - exists []. repeat split; auto. intros [|i] ? ? E; discriminate.
  - destruct (IH b ltac:(lia)) as [r [-> [L P]]]. simpl. exists (add x y :: r). repeat split; simpl; auto.
    intros [|i] x' y' E1 E2; simpl in *; [congruence|eauto].
Qed.

Lemma add_in_place_ok (a b : buffer) : wfb a -> wfb b ->
  exists r, add_in_place add a b = Ok r /\ wfb r /\
    forall i x y, nth_error a i = Some x -> nth_error b i = Some y -> nth_error r i = Some (add x y).
Proof.
  intros Ha Hb. unfold add_in_place. rewrite Ha, Hb, Nat.eqb_refl.
  destruct (zip_add_ok a b ltac:(congruence)) as [r [E [L P]]]. exists r. repeat split; auto.
  unfold NodesSpec.wfb. congruence.
Qed.

(* ---- Sum ---- *)
Lemma foldM_sum_onto : forall (inputs : list bufs) (acc : buffer) c,
  Forall wfbs inputs -> wfb acc ->
  exists r, foldM (sum_onto add c) inputs acc = Ok r /\ wfb r /\
    forall i a, nth_error acc i = Some a ->
                nth_error r i = Some (fold_left add (chan_samples inputs c i) a).
Proof.
  induction inputs as [|inp rest IH]; intros acc c Hin Hacc.
  - exists acc. repeat split; auto.
  - inversion Hin as [|? ? Hinp Hrest]; subst. cbn [foldM]. unfold sum_onto at 1.
    destruct (nth_error inp c) as [ib|] eqn:E.
    + assert (Hib : wfb ib) by (eapply wfbs_nth; eauto).
      destruct (add_in_place_ok acc ib Hacc Hib) as [r1 [-> [W1 P1]]]. cbn [bind].
      destruct (IH r1 c Hrest W1) as [r [-> [W P]]]. exists r. repeat split; auto.
      intros i a Ea. assert (Hi : i < length ib).
      { rewrite Hib, <- Hacc. eapply nth_error_Some_lt; eauto. }
      destruct (nth_error_lt_Some ib i Hi) as [y Ey].
      unfold chan_samples. cbn [flat_map]. rewrite E, Ey. cbn [app fold_left].
      apply P. eapply P1; eauto.
    + cbn [bind]. destruct (IH acc c Hrest Hacc) as [r [-> [W P]]]. exists r. repeat split; auto.
      intros i a Ea. unfold chan_samples. cbn [flat_map]. rewrite E. cbn [app]. now apply P.
Qed.

Lemma sum_row_ok (inputs : list bufs) c : Forall wfbs inputs ->
  foldM (sum_onto add c) inputs silent = Ok (sum_row zero add LEN inputs c).
Proof.
  intros Hin. destruct (foldM_sum_onto inputs silent c Hin silent_wf) as [r [-> [W P]]]. f_equal.
  apply list_eq_nth.
  - unfold sum_row. rewrite map_length, seq_length. exact W.
  - intros i Hi. rewrite W in Hi. unfold sum_row. rewrite nth_error_map_seq by auto.
    apply P. apply nth_error_repeat. exact Hi.
Qed.

Lemma mapM_silence (output : bufs) : wfbs output ->
  mapM (silence zero LEN) output = Ok (repeat silent (length output)).
Proof.
  induction output as [|b o IH]; intros H; [reflexivity|]. inversion H; subst. cbn [mapM].
  rewrite silence_ok by auto. cbn [bind]. rewrite IH by auto. reflexivity.
Qed.

Lemma sum_rows_ok (inputs : list bufs) : Forall wfbs inputs -> forall n c0,
  mapiM (fun c ob => foldM (sum_onto add c) inputs ob) c0 (repeat silent n)
  = Ok (map (sum_row zero add LEN inputs) (seq c0 n)).
Proof.
  intros Hin. induction n as [|n IH]; intros c0; [reflexivity|]. cbn [repeat mapiM seq map].
  rewrite sum_row_ok by auto. cbn [bind]. rewrite IH. reflexivity.
Qed.

Theorem sum_correct (inputs : list bufs) (output : bufs) :
  Forall wfbs inputs -> wfbs output ->
  sum_process zero add LEN inputs output = Ok (sum_spec zero add LEN inputs (length output)).
Proof.
  intros Hin Hout. unfold sum_process. rewrite mapM_silence by auto. cbn [bind].
  now apply sum_rows_ok.
Qed.

Theorem sum_no_inputs (output : bufs) : wfbs output ->
  sum_process zero add LEN [] output = Ok (repeat silent (length output)).
Proof.
  intros Hout. rewrite sum_correct by auto. f_equal. unfold sum_spec, sum_row. cbn [chan_samples flat_map fold_left].
  rewrite map_const_seq. f_equal. apply map_const_seq.
Qed.

(* pointwise reading of the closed form *)
Lemma sum_spec_nth (inputs : list bufs) nout c i : c < nout -> i < LEN ->
  nth2 (sum_spec zero add LEN inputs nout) c i = Some (fold_left add (chan_samples inputs c i) zero).
Proof.
  intros Hc Hi. unfold nth2, sum_spec. rewrite nth_error_map_seq by auto. unfold sum_row.
  now rewrite nth_error_map_seq by auto.
Qed.

(* ---- SumBuffers ---- *)
Lemma foldM_add_bufs : forall (l : bufs) (acc : buffer), wfbs l -> wfb acc ->
  exists r, foldM (add_in_place add) l acc = Ok r /\ wfb r /\
    forall i a, nth_error acc i = Some a -> nth_error r i = Some (fold_left add (column l i) a).
Proof.
  induction l as [|ib rest IH]; intros acc Hl Hacc.
  - exists acc. repeat split; auto.
  - inversion Hl as [|? ? Hib Hrest]; subst. cbn [foldM].
    destruct (add_in_place_ok acc ib Hacc Hib) as [r1 [-> [W1 P1]]]. cbn [bind].
    destruct (IH r1 Hrest W1) as [r [-> [W P]]]. exists r. repeat split; auto.
    intros i a Ea. assert (Hi : i < length ib).
    { rewrite Hib, <- Hacc. eapply nth_error_Some_lt; eauto. }
    destruct (nth_error_lt_Some ib i Hi) as [y Ey].
    unfold column. cbn [flat_map]. rewrite Ey. cbn [app fold_left]. apply P. eapply P1; eauto.
Qed.

Lemma foldM_add_inputs : forall (inputs : list bufs) (acc : buffer), Forall wfbs inputs -> wfb acc ->
  exists r, foldM (fun acc inp => foldM (add_in_place add) inp acc) inputs acc = Ok r /\ wfb r /\
    forall i a, nth_error acc i = Some a -> nth_error r i = Some (fold_left add (column (concat inputs) i) a).
Proof.
  induction inputs as [|inp rest IH]; intros acc Hin Hacc.
  - exists acc. repeat split; auto.
  - inversion Hin as [|? ? Hinp Hrest]; subst. cbn [foldM].
    destruct (foldM_add_bufs inp acc Hinp Hacc) as [r1 [-> [W1 P1]]]. cbn [bind].
    destruct (IH r1 Hrest W1) as [r [-> [W P]]]. exists r. repeat split; auto.
    intros i a Ea. cbn [concat]. unfold column. rewrite flat_map_app, fold_left_app.
    apply P. now apply P1.
Qed.

Lemma mapM_copy (f1 : buffer) (rest : bufs) : wfb f1 -> wfbs rest ->
  mapM (fun ob => copy_from_slice ob f1) rest = Ok (map (fun _ => f1) rest).
Proof.
  intros H1. induction rest as [|b o IH]; intros H; [reflexivity|]. inversion H as [|? ? Hb Ho]; subst. cbn [mapM map].
  rewrite copy_ok by (rewrite Hb; auto). cbn [bind]. rewrite IH by auto. reflexivity.
Qed.

Theorem sum_buffers_correct (inputs : list bufs) (output : bufs) :
  Forall wfbs inputs -> wfbs output ->
  sum_buffers_process zero add LEN inputs output = Ok (map (fun _ => sumb_row zero add LEN inputs) output).
Proof.
  intros Hin Hout. destruct output as [|first rest]; [reflexivity|]. inversion Hout as [|? ? Hf Hr]; subst.
  unfold sum_buffers_process. rewrite silence_ok by auto. cbn [bind].
  destruct (foldM_add_inputs inputs silent Hin silent_wf) as [r [-> [W P]]]. cbn [bind].
  assert (E : r = sumb_row zero add LEN inputs).
  { apply list_eq_nth.
    - unfold sumb_row. rewrite map_length, seq_length. exact W.
    - intros i Hi. rewrite W in Hi. unfold sumb_row. rewrite nth_error_map_seq by auto.
      apply P. apply nth_error_repeat. exact Hi. }
  rewrite mapM_copy by auto. cbn [bind map]. now rewrite E.
Qed.

(* ---- Pass ---- *)
Lemma zip_copy_ok : forall dst src : bufs, wfbs dst -> wfbs src ->
  zip_copy dst src = Ok (zip_copy_spec dst src).
Proof.
  unfold zip_copy_spec.
  induction dst as [|d dt IH]; intros [|s st] Hd Hs; cbn [zip_copy length firstn skipn app].
  - reflexivity.
  - reflexivity.
  - reflexivity.
  - inversion Hd as [|? ? Hd1 Hd2]; inversion Hs as [|? ? Hs1 Hs2]; subst.
    rewrite copy_ok by (rewrite Hd1; auto). cbn [bind]. rewrite IH by auto. reflexivity.
Qed.

Lemma zip_copy_spec_wf (dst src : bufs) : wfbs dst -> wfbs src ->
  wfbs (zip_copy_spec dst src) /\ length (zip_copy_spec dst src) = length dst.
Proof.
  intros Hd Hs. unfold zip_copy_spec. split.
  - apply Forall_app. split.
    + now apply Forall_firstn'.
    + now apply Forall_skipn'.
  - rewrite app_length, firstn_length, skipn_length. lia.
Qed.

Theorem pass_correct (inputs : list bufs) (output : bufs) :
  Forall wfbs inputs -> wfbs output ->
  pass_process inputs output =
  Ok (match inputs with [] => output | inp :: _ => zip_copy_spec output inp end).
Proof.
  intros Hin Hout. destruct inputs as [|inp rest]; [reflexivity|]. inversion Hin; subst.
  now apply zip_copy_ok.
Qed.

End Proofs.
