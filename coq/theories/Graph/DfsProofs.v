(* Proofs about the DfsPostOrder stack machine of Graph/Dfs.v: invariants I1-I5, coverage,
   once-only, post-order under acyclicity, termination measure; then the same for [next]. *)
Require Import List Arith Lia Bool Relations.
From Dasp Require Import Base.Res Graph.Dfs.
Import ListNotations.

Lemma mem_In x l : mem x l = true <-> In x l.
Proof. unfold mem. rewrite existsb_exists. split.
  - intros [y [Hy E]]. apply Nat.eqb_eq in E. now subst.
  - intros H. exists x. split; [assumption|apply Nat.eqb_refl]. Qed.
Lemma mem_nIn x l : mem x l = false <-> ~ In x l.
Proof. rewrite <- mem_In. destruct (mem x l); split; congruence. Qed.

Section DFS.
Variable succ : nat -> list nat.
Variable start : nat.

Notation step_core := (step_core succ).

Definition init : st := {| stack := [start]; disc := []; fin := [] |}.

Definition E (x y : nat) : Prop := In y (succ x).
Definition reach := clos_refl_trans nat E.
Definition tc := clos_trans nat E.

Definition grey (s : st) (g : nat) : Prop := In g (disc s) /\ ~ In g (fin s).

(* fin = A ++ v :: B  ->  every successor of v is in B (finished strictly earlier) *)
Definition ordered (l : list nat) : Prop :=
  forall A v B, l = A ++ v :: B -> forall w, In w (succ v) -> In w B.

Record Inv (s : st) : Prop := {
  i_nodup : NoDup (fin s);
  i_fin_disc : incl (fin s) (disc s);
  i_reach : forall x, In x (stack s) \/ In x (disc s) -> reach start x;
  i_closed : forall x w, In x (disc s) -> In w (succ x) -> In w (disc s) \/ In w (stack s);
  i_start : In start (stack s) \/ In start (disc s);
  i_grey : forall g, grey s g ->
      exists U L, stack s = U ++ g :: L /\ ~ In g U /\
        (forall u, In u U -> tc g u) /\
        (forall w, In w (succ g) -> In w (fin s) \/ grey s w \/ In w U)
}.

Lemma inv_init : Inv init.
Proof.
  constructor; simpl.
  - constructor.
  - intros x [].
  - intros x [[->|[]]|[]]. apply rt_refl.
  - intros x w [].
  - left; now left.
  - intros g [[] _].
Qed.

Lemma reach_step x y : reach start x -> In y (succ x) -> reach start y.
Proof. intros H Hy. eapply rt_trans; [exact H|]. apply rt_step. exact Hy. Qed.

(* what one iteration returns and does to [fin] *)
Lemma step_emit s sr : step_core s = Some sr ->
  match snd sr with
  | Some x => fin (fst sr) = x :: fin s /\ ~ In x (fin s) /\ In x (disc s)
  | None => fin (fst sr) = fin s
  end.
Proof.
  unfold Dfs.step_core. destruct (stack s) as [|x r]; [discriminate|].
  destruct (mem x (disc s)) eqn:Hd; intros [= <-]; cbn [fst snd fin]; [|reflexivity].
  destruct (mem x (fin s)) eqn:Hf; [reflexivity|].
  apply mem_nIn in Hf. apply mem_In in Hd. auto.
Qed.

Lemma step_none s : step_core s = None <-> stack s = [].
Proof.
  unfold Dfs.step_core. destruct (stack s) as [|x r]; [tauto|].
  destruct (mem x (disc s)); split; discriminate.
Qed.

Lemma inv_step s sr : Inv s -> step_core s = Some sr -> Inv (fst sr).
Proof.
  intros I. unfold Dfs.step_core. destruct (stack s) as [|x r] eqn:Hst; [discriminate|].
  destruct (mem x (disc s)) eqn:Hd.
  - (* pop *)
    apply mem_In in Hd. intros [= <-]. cbn [fst].
    assert (Hfin' : forall y, In y (if mem x (fin s) then fin s else x :: fin s) <-> y = x \/ In y (fin s)).
    { intros y. destruct (mem x (fin s)) eqn:Hf.
      - apply mem_In in Hf. split; [now right|]. intros [->|H]; assumption.
      - simpl. split; intros [H|H]; auto. }
    constructor; simpl.
    + destruct (mem x (fin s)) eqn:Hf; [apply (i_nodup _ I)|].
      constructor; [now apply mem_nIn|apply (i_nodup _ I)].
    + intros y Hy. apply Hfin' in Hy. destruct Hy as [->|Hy]; [assumption|now apply (i_fin_disc _ I)].
    + intros y [Hy|Hy]; apply (i_reach _ I); rewrite Hst; [left; now right|now right].
    + intros y w Hy Hw. destruct (i_closed _ I y w Hy Hw) as [H|H]; [now left|].
      rewrite Hst in H. destruct H as [->|H]; [now left|now right].
    + destruct (i_start _ I) as [H|H]; [|now right]. rewrite Hst in H.
      destruct H as [<-|H]; [now right|now left].
    + intros g [Hg Hgf]. rewrite Hfin' in Hgf.
      assert (Hgx : g <> x) by (intros ->; apply Hgf; now left).
      assert (Hgf0 : ~ In g (fin s)) by (intros H; apply Hgf; now right).
      destruct (i_grey _ I g (conj Hg Hgf0)) as (U & L & HU & HgU & Htc & Hsucc).
      rewrite Hst in HU. destruct U as [|u U0]; simpl in HU.
      { injection HU as HU _. congruence. }
      injection HU as <- ->. exists U0, L. repeat split.
      * intros H; apply HgU; now right.
      * intros u Hu. apply Htc. now right.
      * intros w Hw. destruct (Hsucc w Hw) as [H|[[H1 H2]|[<-|H]]].
        -- left. apply Hfin'. now right.
        -- destruct (Nat.eq_dec w x) as [->|Hwx]; [left; apply Hfin'; now left|].
           right; left. split; [assumption|]. rewrite Hfin'. intros [?|?]; [congruence|contradiction].
        -- left. apply Hfin'. now left.
        -- right; right. assumption.
  - (* discover *)
    apply mem_nIn in Hd. intros [= <-]. cbn [fst].
    set (d' := x :: disc s).
    set (P := filter (fun w => negb (mem w d')) (succ x)).
    assert (HP : forall w, In w P <-> In w (succ x) /\ ~ In w d').
    { intros w. unfold P. rewrite filter_In, negb_true_iff, mem_nIn. tauto. }
    assert (Hxf : ~ In x (fin s)) by (intros H; apply Hd; now apply (i_fin_disc _ I)).
    constructor; simpl.
    + apply (i_nodup _ I).
    + intros y Hy. right. now apply (i_fin_disc _ I).
    + assert (Rx : reach start x) by (apply (i_reach _ I); left; rewrite Hst; now left).
      intros y [Hy|[<-|Hy]]; [|assumption|apply (i_reach _ I); now right].
      apply in_app_or in Hy. destruct Hy as [Hy|Hy].
      * apply in_rev, HP in Hy. eapply reach_step; [exact Rx|apply Hy].
      * apply (i_reach _ I). left. rewrite Hst. exact Hy.
    + intros y w [<-|Hy] Hw.
      * destruct (in_dec Nat.eq_dec w d') as [H|H]; [now left|].
        right. apply in_or_app. left. apply -> in_rev. apply HP. now split.
      * destruct (i_closed _ I y w Hy Hw) as [H|H]; [left; now right|].
        rewrite Hst in H. destruct H as [<-|H]; [left; now left|].
        right. apply in_or_app. right. now right.
    + destruct (i_start _ I) as [H|H].
      * left. rewrite Hst in H. apply in_or_app. right. exact H.
      * right. now right.
    + intros g [Hg Hgf].
      destruct (Nat.eq_dec g x) as [->|Hgx].
      * (* the newly discovered node *)
        exists (rev P), r. repeat split.
        -- intros H. apply in_rev, HP in H. apply (proj2 H). now left.
        -- intros u Hu. apply in_rev, HP in Hu. apply t_step. apply Hu.
        -- intros w Hw. destruct (in_dec Nat.eq_dec w d') as [H|H].
           ++ destruct (in_dec Nat.eq_dec w (fin s)) as [Hf|Hf]; [now left|].
              right; left. split; assumption.
           ++ right; right. apply -> in_rev. apply HP. now split.
      * destruct Hg as [Hg|Hg]; [congruence|].
        destruct (i_grey _ I g (conj Hg Hgf)) as (U & L & HU & HgU & Htc & Hsucc).
        rewrite Hst in HU. destruct U as [|u U0]; simpl in HU.
        { injection HU as HU _. congruence. }
        injection HU as <- ->.
        exists (rev P ++ x :: U0), L. repeat split.
        -- rewrite <- app_assoc. reflexivity.
        -- intros H. apply in_app_or in H. destruct H as [H|H].
           ++ apply in_rev, HP in H. apply (proj2 H). now right.
           ++ now apply HgU.
        -- intros u Hu. apply in_app_or in Hu. destruct Hu as [Hu|Hu].
           ++ apply in_rev, HP in Hu. eapply t_trans; [apply Htc; now left|]. apply t_step. apply Hu.
           ++ now apply Htc.
        -- intros w Hw. destruct (Hsucc w Hw) as [H|[[H1 H2]|H]].
           ++ now left.
           ++ right; left. split; [now right|assumption].
           ++ right; right. apply in_or_app. now right.
Qed.

(* ---------- post-order, under acyclicity of what is reachable ---------- *)
Definition acyclic : Prop := forall x, reach start x -> ~ tc x x.

Lemma ordered_step s sr : acyclic -> Inv s -> ordered (fin s) -> step_core s = Some sr -> ordered (fin (fst sr)).
Proof.
  intros acyc I O. unfold Dfs.step_core. destruct (stack s) as [|x r] eqn:Hst; [discriminate|].
  destruct (mem x (disc s)) eqn:Hd; intros [= <-]; cbn [fst fin]; [|exact O].
  destruct (mem x (fin s)) eqn:Hf; [exact O|].
  apply mem_In in Hd. apply mem_nIn in Hf.
  destruct (i_grey _ I x (conj Hd Hf)) as (U & L & HU & HxU & Htc & Hsucc).
  rewrite Hst in HU. destruct U as [|u U0]; simpl in HU.
  2:{ injection HU as <- _. exfalso. apply HxU. now left. }
  assert (Rx : reach start x) by (apply (i_reach _ I); now right).
  intros A v B Heq w Hw. destruct A as [|a A]; simpl in Heq.
  - injection Heq as <- <-. destruct (Hsucc w Hw) as [H|[[H1 H2]|[]]]; [assumption|].
    exfalso.
    destruct (Nat.eq_dec w x) as [->|Hwx].
    { apply (acyc x Rx). apply t_step. exact Hw. }
    destruct (i_grey _ I w (conj H1 H2)) as (U' & L' & HU' & HwU' & Htc' & _).
    rewrite Hst in HU'. destruct U' as [|u' U0']; simpl in HU'.
    { injection HU' as HU' _. congruence. }
    injection HU' as <- _.
    apply (acyc x Rx). eapply t_trans; [apply t_step; exact Hw|]. apply Htc'. now left.
  - injection Heq as -> Heq. eapply O; eauto.
Qed.

(* ---------- a terminated traversal ---------- *)
Lemma done_visits_exactly_reachable s : Inv s -> stack s = [] ->
  forall v, In v (fin s) <-> reach start v.
Proof.
  intros I Hs.
  assert (Hnogrey : forall g, In g (disc s) -> In g (fin s)).
  { intros g Hg. destruct (in_dec Nat.eq_dec g (fin s)) as [?|Hn]; [assumption|].
    destruct (i_grey _ I g (conj Hg Hn)) as (U & L & HU & _). rewrite Hs in HU.
    destruct U; discriminate. }
  intros v. split.
  - intros Hv. apply (i_reach _ I). right. now apply (i_fin_disc _ I).
  - intros R. apply Hnogrey.
    assert (Hst : In start (disc s)).
    { destruct (i_start _ I) as [Hx|Hx]; [rewrite Hs in Hx; destruct Hx|assumption]. }
    assert (Hcl : forall x v, clos_refl_trans_1n nat E x v -> In x (disc s) -> In v (disc s)).
    { intros x v' R1. induction R1 as [|x y z Hxy _ IH]; [auto|].
      intros Hx. apply IH. destruct (i_closed _ I x y Hx Hxy) as [Hy|Hy]; [assumption|].
      rewrite Hs in Hy. destruct Hy. }
    apply clos_rt_rt1n in R. eapply Hcl; eauto.
Qed.

Lemma ordered_rev l : ordered l ->
  forall A v B, rev l = A ++ v :: B -> forall w, In w (succ v) -> In w A.
Proof.
  intros O A v B Heq w Hw.
  assert (Hf : l = rev B ++ v :: rev A).
  { rewrite <- (rev_involutive l), Heq, rev_app_distr. simpl. rewrite <- app_assoc. reflexivity. }
  apply in_rev. eapply O; eauto.
Qed.

Lemma ordered_nil : ordered [].
Proof. intros A v B Heq. destruct A; discriminate. Qed.

(* ---------- termination measure ---------- *)
Section Term.
Variable univ : list nat.
Hypothesis univ_closed : forall x y, In x univ -> In y (succ x) -> In y univ.

Definition wsum (l : list nat) : nat := fold_right (fun u acc => S (length (succ u)) + acc) 0 l.
Definition white (d : list nat) : list nat := filter (fun u => negb (mem u d)) univ.
Definition mu (s : st) : nat := length (stack s) + wsum (white (disc s)).

Lemma wsum_filter_mono (f g : nat -> bool) l :
  (forall u, f u = true -> g u = true) -> wsum (filter f l) <= wsum (filter g l).
Proof.
  intros H. induction l as [|a l IH]; simpl; [lia|].
  destruct (f a) eqn:Fa.
  - rewrite (H a Fa). simpl. lia.
  - destruct (g a); simpl; lia.
Qed.

Lemma wsum_filter_le (f : nat -> bool) l : wsum (filter f l) <= wsum l.
Proof. induction l as [|a l IH]; simpl; [lia|]. destruct (f a); simpl; lia. Qed.

Lemma wsum_filter_strict (f g : nat -> bool) l x :
  (forall u, f u = true -> g u = true) -> In x l -> g x = true -> f x = false ->
  wsum (filter f l) + S (length (succ x)) <= wsum (filter g l).
Proof.
  intros H Hx Gx Fx. induction l as [|a l IH]; [destruct Hx|].
  pose proof (wsum_filter_mono f g l H) as Hm. simpl.
  destruct Hx as [->|Hx].
  - rewrite Fx, Gx. simpl. lia.
  - specialize (IH Hx). destruct (f a) eqn:Fa.
    + rewrite (H a Fa). simpl. lia.
    + destruct (g a); simpl; lia.
Qed.

Lemma wsum_white_discover l d x : In x l -> ~ In x d ->
  wsum (filter (fun u => negb (mem u (x :: d))) l) + S (length (succ x))
  <= wsum (filter (fun u => negb (mem u d)) l).
Proof.
  intros Hx Hd. apply wsum_filter_strict; auto.
  - intros u Hu. apply negb_true_iff, mem_nIn in Hu. apply negb_true_iff, mem_nIn.
    intros H. apply Hu. now right.
  - apply negb_true_iff, mem_nIn. exact Hd.
  - apply negb_false_iff, mem_In. now left.
Qed.

Definition in_univ (s : st) : Prop := forall x, In x (stack s) -> In x univ.

Lemma filter_len_le (f : nat -> bool) l : length (filter f l) <= length l.
Proof. induction l as [|a l IH]; simpl; [lia|]. destruct (f a); simpl; lia. Qed.

Lemma step_decreases s sr : in_univ s -> step_core s = Some sr -> in_univ (fst sr) /\ mu (fst sr) < mu s.
Proof.
  intros HU. unfold Dfs.step_core. destruct (stack s) as [|x r] eqn:Hst; [discriminate|].
  assert (Hx : In x univ) by (apply HU; rewrite Hst; now left).
  destruct (mem x (disc s)) eqn:Hd; intros [= <-]; unfold mu, in_univ; cbn [fst stack disc fin].
  - split; [intros y Hy; apply HU; rewrite Hst; now right|]. rewrite Hst. cbn [length]. lia.
  - apply mem_nIn in Hd. split.
    + intros y Hy. apply in_app_or in Hy. destruct Hy as [Hy|Hy].
      * apply in_rev, filter_In in Hy. eapply univ_closed; [exact Hx|apply Hy].
      * apply HU. rewrite Hst. exact Hy.
    + rewrite Hst. rewrite app_length, rev_length. cbn [length].
      pose proof (wsum_white_discover univ (disc s) x Hx Hd) as H. unfold white.
      match goal with |- context[length (filter ?f (succ x))] => pose proof (filter_len_le f (succ x)) as Hlen end.
      lia.
Qed.

Lemma mu_init : In start univ -> mu init < 2 + wsum univ.
Proof.
  intros _. unfold mu, init, white; cbn [stack disc length].
  pose proof (wsum_filter_le (fun u => negb (mem u [])) univ). lia.
Qed.

(* ---------- DfsPostOrder::next ---------- *)
Variable cap : nat.
Hypothesis univ_cap : forall x, In x univ -> x < cap.

Lemma step_in_range s : in_univ s -> step succ cap s = Ok (step_core s).
Proof.
  intros HU. unfold step, Dfs.step_core. destruct (stack s) as [|x r] eqn:Hst; [reflexivity|].
  assert (Hx : x < cap) by (apply univ_cap, HU; rewrite Hst; now left).
  apply Nat.ltb_lt in Hx. rewrite Hx. reflexivity.
Qed.

(* `next` returns without panic and without running out of fuel; what it returns *)
Lemma next_ok fuel : forall s, Inv s -> in_univ s -> mu s < fuel ->
  exists s' r, next succ fuel cap s = Ok (s', r) /\ Inv s' /\ in_univ s' /\
    match r with
    | Some x => fin s' = x :: fin s /\ ~ In x (fin s) /\ mu s' < mu s
    | None => fin s' = fin s /\ stack s' = [] /\ mu s' <= mu s
    end.
Proof.
  induction fuel as [|k IH]; intros s I HU Hm; [lia|]. cbn [next].
  rewrite (step_in_range s HU).
  destruct (step_core s) as [[s1 r1]|] eqn:Hs.
  - pose proof (inv_step s _ I Hs) as I1. pose proof (step_decreases s _ HU Hs) as [HU1 Hlt].
    pose proof (step_emit s _ Hs) as He. cbn [fst snd] in *.
    destruct r1 as [x|].
    + exists s1, (Some x). split; [reflexivity|]. split; [assumption|]. split; [assumption|].
      split; [apply He|]. split; [apply He|assumption].
    + destruct (IH s1 I1 HU1 ltac:(lia)) as (s' & r & Hn & I' & HU' & Hr).
      exists s', r. split; [assumption|]. split; [assumption|]. split; [assumption|].
      rewrite He in Hr. destruct r; intuition lia.
  - apply step_none in Hs. exists s, None. split; [reflexivity|]. split; [assumption|].
    split; [assumption|]. split; [reflexivity|]. split; [assumption|lia].
Qed.

End Term.

Lemma next_ordered fuel cap : forall s s' r, acyclic -> Inv s -> ordered (fin s) ->
  next succ fuel cap s = Ok (s', r) -> ordered (fin s').
Proof.
  induction fuel as [|k IH]; intros s s' r acyc I O; cbn [next]; [discriminate|].
  unfold step. destruct (stack s) as [|x rr] eqn:Hst.
  - intros [= <- _]. exact O.
  - destruct (x <? cap); [|discriminate].
    destruct (step_core s) as [[s1 r1]|] eqn:Hs.
    + pose proof (inv_step s _ I Hs) as I1. pose proof (ordered_step s _ acyc I O Hs) as O1.
      cbn [fst] in *. destruct r1.
      * intros [= <- _]. exact O1.
      * apply IH; assumption.
    + intros [= <- _]. exact O.
Qed.

End DFS.

(* the traversal only looks at what one loop iteration does *)
Lemma next_ext_step succ1 succ2 fuel cap : (forall s, step_core succ1 s = step_core succ2 s) ->
  forall s, next succ1 fuel cap s = next succ2 fuel cap s.
Proof.
  intros H. induction fuel as [|k IH]; intros s; [reflexivity|]. cbn [next]. unfold step.
  rewrite (H s). destruct (stack s); [reflexivity|].
  destruct (_ <? _); [|reflexivity]. destruct (step_core succ2 s) as [[s1 [x|]]|]; auto.
Qed.

Lemma filter_filter_imp {A} (P Q : A -> bool) l :
  (forall w, P w = true -> Q w = true) -> filter P (filter Q l) = filter P l.
Proof.
  intros H. induction l as [|a l IH]; simpl; [reflexivity|].
  destruct (Q a) eqn:Qa; simpl; rewrite IH; [reflexivity|].
  destruct (P a) eqn:Pa; [|reflexivity]. rewrite (H a Pa) in Qa. discriminate.
Qed.

(* self-loops are never followed: x is discovered by the time its neighbours are filtered *)
Lemma step_core_selfloop succ1 succ2 s :
  (forall x, succ2 x = filter (fun u => negb (u =? x)) (succ1 x)) -> step_core succ1 s = step_core succ2 s.
Proof.
  intros H. unfold step_core. destruct (stack s) as [|x r]; [reflexivity|].
  rewrite H, filter_filter_imp; [reflexivity|].
  intros w Hw. apply negb_true_iff in Hw. apply negb_true_iff.
  destruct (Nat.eqb_spec w x) as [->|]; [|reflexivity].
  simpl in Hw. rewrite Nat.eqb_refl in Hw. discriminate.
Qed.
