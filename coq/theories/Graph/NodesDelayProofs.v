(* Delay node: each channel is a delay line of its ring's length, continuous across
   process calls.  Rests on the Fixed delay-line refinement of C06 (FixedProofs.v). *)
Require Import List Arith Bool Lia.
From Dasp Require Import Base.Res Base.ListX Ring.Bounded Ring.BoundedSpec Ring.Fixed Ring.FixedSpec
  Ring.FixedProofs Graph.Nodes Graph.NodesSpec Graph.NodesProofs.
Import ListNotations.

Section DelayProofs.
Context {Smp : Type}.
Variable LEN : nat.

Notation buffer := (list Smp).
Notation bufs := (list (list Smp)).
Notation wfb := (wfb (Smp:=Smp) LEN).
Notation wfbs := (wfbs (Smp:=Smp) LEN).

(* the loop of one channel is a run of pushes *)
Lemma delay_chan_pushes : forall (ob : buffer) i (r : fixed Smp) (ib : buffer),
  i + length ob <= length ib ->
  delay_chan i r ib ob = fpushes (firstn (length ob) (skipn i ib)) r.
Proof.
  induction ob as [|o ot IH]; intros i r ib H; [reflexivity|]. cbn [length] in H.
  destruct (skipn_cons_nth ib i ltac:(lia)) as [x [E1 E2]].
  cbn [delay_chan length]. rewrite E2. cbn [firstn fpushes]. unfold get_checked. rewrite E1. cbn [bind].
  destruct (fpush r x) as [p| |]; cbn [bind]; auto.
  rewrite IH by lia. reflexivity.
Qed.

(* the ideal delay line after pushing xs: the last |q| elements of q ++ xs *)
Lemma d_push_skipn : forall (xs q : list Smp), q <> [] ->
  fold_left d_push xs q = skipn (length xs) (q ++ xs).
Proof.
  induction xs as [|x xs IH]; intros q Hq.
  - cbn. now rewrite app_nil_r.
  - cbn [fold_left length]. destruct q as [|h t]; [congruence|].
    rewrite IH by (unfold d_push; cbn; destruct t; discriminate).
    unfold d_push. cbn [tl app skipn]. now rewrite <- app_assoc.
Qed.

Lemma delay_chan_ok (r : fixed Smp) (ib ob : buffer) : InvF r -> wfb ib -> wfb ob ->
  exists r', delay_chan 0 r ib ob = Ok (r', firstn LEN (fq r ++ ib)) /\ InvF r' /\ flen r' = flen r /\
             fq r' = skipn LEN (fq r ++ ib).
Proof.
  intros I Hib Hob. rewrite delay_chan_pushes by (rewrite Hib, Hob; lia).
  rewrite Hob, <- Hib. cbn [skipn]. rewrite firstn_all.
  destruct (fpushes_refines ib r I) as [r' [E [I' [L A]]]]. exists r'. repeat split; auto.
  assert (Hq : fq r' = fold_left d_push ib (fq r)) by (rewrite fabs_eq in A; congruence).
  rewrite Hq. apply d_push_skipn. intros Hnil. pose proof (fabs_length r) as HL. rewrite Hnil in HL.
  unfold InvF in I. simpl in HL. lia.
Qed.

Lemma chan_out_wf (q ib : buffer) : wfb ib -> wfb (firstn LEN (q ++ ib)).
Proof. intros H. unfold NodesSpec.wfb in *. rewrite firstn_length, app_length. lia. Qed.

(* one call, all channels: totality and shape *)
Lemma delay_zip_total : forall (rings : list (fixed Smp)) (inb outb : bufs),
  Forall InvF rings -> wfbs inb -> wfbs outb ->
  exists rings' out', delay_zip rings inb outb = Ok (rings', out') /\
    Forall InvF rings' /\ wfbs out' /\ length rings' = length rings /\ length out' = length outb.
Proof.
  induction rings as [|r rt IH]; intros inb outb Hr Hi Ho.
  - exists [], outb. cbn. auto.
  - destruct inb as [|ib it]; [exists (r :: rt), outb; cbn; auto|].
    destruct outb as [|ob ot]; [exists (r :: rt), []; cbn; auto|].
    inversion Hr as [|? ? Hr1 Hr2]; inversion Hi as [|? ? Hi1 Hi2]; inversion Ho as [|? ? Ho1 Ho2]; subst.
    cbn [delay_zip]. destruct (delay_chan_ok r ib ob Hr1 Hi1 Ho1) as [r' [-> [I' [L Q]]]]. cbn [bind fst snd].
    destruct (IH it ot Hr2 Hi2 Ho2) as [rs' [o' [-> [A [B [C D]]]]]]. cbn [bind fst snd].
    eexists _, _. split; [reflexivity|]. repeat split; cbn [length]; auto.
    constructor; auto. now apply chan_out_wf.
Qed.

(* one call, channel by channel *)
Lemma delay_zip_chan : forall (rings : list (fixed Smp)) (inb outb : bufs) rings' out' c,
  Forall InvF rings -> wfbs inb -> wfbs outb ->
  delay_zip rings inb outb = Ok (rings', out') ->
  chan_rel LEN (nth_error rings c) (nth_error inb c) (nth_error outb c) (nth_error rings' c) (nth_error out' c).
Proof.
  induction rings as [|r rt IH]; intros inb outb rings' out' c Hr Hi Ho E.
  - cbn in E. inversion E; subst. unfold chan_rel. destruct c; cbn; auto.
  - destruct inb as [|ib it].
    { cbn in E. inversion E; subst. unfold chan_rel. destruct (nth_error (r :: rt) c); destruct c; cbn; auto. }
    destruct outb as [|ob ot].
    { cbn in E. inversion E; subst. unfold chan_rel.
      destruct (nth_error (r :: rt) c); destruct (nth_error (ib :: it) c); destruct c; cbn; auto. }
    inversion Hr as [|? ? Hr1 Hr2]; inversion Hi as [|? ? Hi1 Hi2]; inversion Ho as [|? ? Ho1 Ho2]; subst.
    cbn [delay_zip] in E. destruct (delay_chan_ok r ib ob Hr1 Hi1 Ho1) as [r' [E1 [I' [L Q]]]].
    rewrite E1 in E. cbn [bind fst snd] in E.
    destruct (delay_zip rt it ot) as [[rs' o']| |] eqn:E2; cbn [bind fst snd] in E; try discriminate.
    inversion E; subst. destruct c as [|c]; cbn [nth_error].
    + unfold chan_rel. exists r'. repeat split; auto.
    + eapply IH; eauto.
Qed.

Notation chan_in := (chan_in (Smp:=Smp)).

Definition wf_call (inputs : list bufs) : Prop := Forall wfbs inputs.

Theorem delay_call_total (rings : list (fixed Smp)) (inputs : list bufs) (output : bufs) :
  Forall InvF rings -> wf_call inputs -> wfbs output ->
  exists rings' out', delay_process rings inputs output = Ok (rings', out') /\
    Forall InvF rings' /\ wfbs out' /\ length rings' = length rings /\ length out' = length output.
Proof.
  intros Hr Hc Ho. destruct inputs as [|inp rest].
  - exists rings, output. cbn. auto.
  - inversion Hc; subst. cbn [delay_process]. now apply delay_zip_total.
Qed.

Theorem delay_call_chan (rings : list (fixed Smp)) (inputs : list bufs) (output : bufs) rings' out' c :
  Forall InvF rings -> wf_call inputs -> wfbs output ->
  delay_process rings inputs output = Ok (rings', out') ->
  chan_rel LEN (nth_error rings c) (chan_in c inputs) (nth_error output c) (nth_error rings' c) (nth_error out' c).
Proof.
  intros Hr Hc Ho E. destruct inputs as [|inp rest].
  - cbn in E. inversion E; subst. unfold chan_rel, NodesSpec.chan_in.
    destruct (nth_error rings' c); auto.
  - inversion Hc; subst. cbn [delay_process] in E. cbn [NodesSpec.chan_in]. eapply delay_zip_chan; eauto.
Qed.

Lemma stream_split (q ib rest : list Smp) n m : length ib = n ->
  firstn n (q ++ ib) ++ firstn m (skipn n (q ++ ib) ++ rest) = firstn (n + m) (q ++ ib ++ rest).
Proof.
  intros H. rewrite firstn_plus. rewrite (app_assoc q ib rest).
  assert (Hn : n <= length (q ++ ib)) by (rewrite app_length; lia).
  remember (q ++ ib) as L eqn:EL. clear EL.
  rewrite (firstn_app n L rest), (skipn_app n L rest).
  replace (n - length L) with 0 by lia. cbn [firstn skipn]. now rewrite app_nil_r.
Qed.

(* any number of consecutive calls: per channel, the outputs of the calls that fed the
   channel, concatenated, are the ring's initial content followed by the input stream *)
Theorem delay_stream : forall (calls : list (list bufs)) (rings : list (fixed Smp)) (output : bufs),
  Forall InvF rings -> Forall wf_call calls -> wfbs output ->
  exists rings' outs, delay_calls rings calls output = Ok (rings', outs) /\
    length outs = length calls /\ Forall (fun o => length o = length output) outs /\
    forall c r, nth_error rings c = Some r -> c < length output ->
      fed_stream c calls outs = firstn (length (in_stream c calls)) (fq r ++ in_stream c calls).
Proof.
  induction calls as [|call ct IH]; intros rings output Hr Hc Ho.
  - exists rings, []. cbn. repeat split; auto.
  - inversion Hc as [|? ? Hc1 Hc2]; subst. cbn [delay_calls].
    destruct (delay_call_total rings call output Hr Hc1 Ho) as [rings1 [out1 [E1 [Hr1 [Ho1 [Lr Lo]]]]]].
    rewrite E1. cbn [bind fst snd].
    destruct (IH rings1 out1 Hr1 Hc2 Ho1) as [rings' [outs [-> [Ln [Hl P]]]]]. cbn [bind fst snd].
    eexists _, _. split; [reflexivity|]. split; [cbn; lia|]. split.
    { constructor; auto. eapply Forall_impl; [|exact Hl]. cbn. intros; congruence. }
    intros c r Er Hlt. destruct (nth_error_lt_Some output c Hlt) as [ob Eob].
    pose proof (delay_call_chan rings call output rings1 out1 c Hr Hc1 Ho E1) as R.
    rewrite Er, Eob in R. unfold in_stream. cbn [fed_stream flat_map]. fold (in_stream c ct).
    unfold chan_rel in R. destruct (chan_in c call) as [ib|] eqn:Ein.
    + destruct R as [r1 [Er1 [L1 [I1 [Q1 Eo1]]]]]. rewrite Eo1.
      assert (Hib : wfb ib).
      { destruct call as [|inp rest]; [discriminate|]. cbn in Ein. inversion Hc1; subst. eapply wfbs_nth; eauto. }
      rewrite (P c r1 Er1 ltac:(lia)), Q1, app_length, Hib. now apply stream_split.
    + destruct R as [Er1 Eo1]. cbn [app]. apply P; auto. lia.
Qed.

(* the same when the owner replaces the node's buffer list between calls: the stream of a
   channel over the calls in which it has both an input and an output buffer is continuous *)
Theorem delay_stream_v : forall (calls : list (list bufs * bufs)) (rings : list (fixed Smp)),
  Forall InvF rings -> Forall (fun call => wf_call (fst call) /\ wfbs (snd call)) calls ->
  exists rings' outs, delay_calls_v rings calls = Ok (rings', outs) /\
    Forall InvF rings' /\ length rings' = length rings /\
    Forall2 (fun call o => length o = length (snd call)) calls outs /\
    forall c r, nth_error rings c = Some r ->
      fed_stream_v c calls outs = firstn (length (in_stream_v c calls)) (fq r ++ in_stream_v c calls).
Proof.
  induction calls as [|[inputs output] ct IH]; intros rings Hr Hc.
  - exists rings, []. cbn. repeat split; auto.
  - inversion Hc as [|? ? [Hc1 Ho] Hc2]; subst. cbn [fst snd] in *. cbn [delay_calls_v].
    destruct (delay_call_total rings inputs output Hr Hc1 Ho) as [rings1 [out1 [E1 [Hr1 [Ho1 [Lr Lo]]]]]].
    rewrite E1. cbn [bind fst snd].
    destruct (IH rings1 Hr1 Hc2) as [rings' [outs [-> [Hr' [Lr' [Hl P]]]]]]. cbn [bind fst snd].
    eexists _, _. split; [reflexivity|]. split; [exact Hr'|]. split; [congruence|]. split.
    { constructor; auto. }
    intros c r Er.
    pose proof (delay_call_chan rings inputs output rings1 out1 c Hr Hc1 Ho E1) as R.
    rewrite Er in R. unfold in_stream_v. cbn [fed_stream_v flat_map]. fold (in_stream_v c ct).
    unfold chan_fed. cbn [fst snd]. unfold chan_rel in R.
    destruct (chan_in c inputs) as [ib|] eqn:Ein; destruct (nth_error output c) as [ob|] eqn:Eob.
    + destruct R as [r1 [Er1 [L1 [I1 [Q1 Eo1]]]]]. rewrite Eo1.
      assert (Hib : wfb ib).
      { destruct inputs as [|inp rest]; [discriminate|]. cbn in Ein. inversion Hc1; subst. eapply wfbs_nth; eauto. }
      rewrite (P c r1 Er1), Q1, app_length, Hib. now apply stream_split.
    + destruct R as [Er1 Eo1]. cbn [app]. apply P; auto.
    + destruct R as [Er1 Eo1]. cbn [app]. apply P; auto.
    + destruct R as [Er1 Eo1]. cbn [app]. apply P; auto.
Qed.

End DelayProofs.
